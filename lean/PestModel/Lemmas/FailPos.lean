/-
  Lemmas/FailPos.lean — invariants of the furthest-failure record (property C13, state part).

  Two invariants of `PState` are preserved by every node of the interpreter model L1 and of
  the generated-code model LG, whatever the verdict of the call:
    `Bounded inp k c`  the position, every saved position and the furthest-failure position
                       lie between the start position `k` and `len(input)` (or the failure
                       position is still the sentinel `-1`);
    `Known g c`        every name on the rule stack (current items and the delta log
                       `popped`), every key of `furthest_expected` / `furthest_unexpected`
                       and every entry of `furthest_stack` is the name of a rule of the
                       grammar or of a rule object embedded in one of its trees (built-ins).
  Both proofs have the same shape, so the step-preservation argument is done once, for an
  abstract `Kit` (an invariant `I` on states and a predicate `N` on rule names with the
  closure properties the argument needs), and instantiated twice.
  Everything lives in namespace `Pest.FailPos` (several lemma files are imported together by
  the root module; short names such as `lookup_mem` exist elsewhere).
-/
import PestModel.Lemmas.GenEq

namespace Pest
namespace FailPos

/-! ### primitive matchers stay inside the input -/

section prim
variable (inp : Input)

theorem getElem?_lt {p x : Nat} (h : inp[p]? = some x) : p < inp.size :=
  (Array.getElem?_eq_some_iff.mp h).1

theorem startsWithAt_le : ∀ (s : Str) (p : Nat), startsWithAt inp s p = true → p + s.length ≤ inp.size
  | [], p, h => by simpa [startsWithAt] using h
  | _ :: rest, p, h => by
    simp only [startsWithAt, Bool.and_eq_true] at h
    have := startsWithAt_le rest (p + 1) h.2
    simp only [List.length_cons]; omega

theorem startsWithAtCI_le : ∀ (s : Str) (p : Nat), startsWithAtCI inp s p = true → p + s.length ≤ inp.size
  | [], p, h => by simpa [startsWithAtCI] using h
  | _ :: rest, p, h => by
    simp only [startsWithAtCI, Bool.and_eq_true] at h
    have := startsWithAtCI_le rest (p + 1) h.2
    simp only [List.length_cons]; omega

theorem matchAll_le : ∀ (ls : List Str) (p q : Nat), L1.matchAll inp ls p = some q →
    p ≤ q ∧ (p ≤ inp.size → q ≤ inp.size)
  | [], p, q, h => by
    simp only [L1.matchAll, Option.some.injEq] at h; subst h; exact ⟨Nat.le_refl _, id⟩
  | l :: ls, p, q, h => by
    simp only [L1.matchAll] at h
    by_cases hm : startsWithAt inp l p = true
    · simp only [hm, ↓reduceIte] at h
      have h1 := startsWithAt_le inp l p hm
      have h2 := matchAll_le ls (p + l.length) q h
      exact ⟨by omega, fun _ => h2.2 h1⟩
    · simp [hm] at h

theorem findFrom_go_le (s : Str) : ∀ (k p q : Nat), findFrom.go inp s k p = some q →
    p ≤ q ∧ q ≤ inp.size := by
  intro k
  induction k with
  | zero => intro p q h; simp [findFrom.go] at h
  | succ k ih =>
    intro p q h
    simp only [findFrom.go] at h
    by_cases hm : startsWithAt inp s p = true
    · simp only [hm, ↓reduceIte, Option.some.injEq] at h
      subst h
      have := startsWithAt_le inp s p hm
      exact ⟨Nat.le_refl _, by omega⟩
    · simp only [hm, Bool.false_eq_true, ↓reduceIte] at h
      have := ih (p + 1) q h
      exact ⟨by omega, this.2⟩

theorem findFrom_le (s : Str) (p q : Nat) (h : findFrom inp s p = some q) : p ≤ q ∧ q ≤ inp.size := by
  unfold findFrom at h
  by_cases hp : p > inp.size
  · simp [hp] at h
  · simp only [hp, ↓reduceIte] at h
    exact findFrom_go_le inp s _ p q h

theorem skipUntil_fold_le (p : Nat) : ∀ (subs : List Str) (b : Option Nat),
    (∀ q, b = some q → p ≤ q ∧ q ≤ inp.size) →
    ∀ q, subs.foldl (fun (b : Option Nat) s =>
      match findFrom inp s p with
      | some p => (match b with | none => some p | some q => if p < q then some p else some q)
      | none => b) b = some q → p ≤ q ∧ q ≤ inp.size := by
  intro subs
  induction subs with
  | nil => intro b hb q h; exact hb q h
  | cons s rest ih =>
    intro b hb q h
    simp only [List.foldl_cons] at h
    refine ih _ ?_ q h
    intro q' hq'
    cases hf : findFrom inp s p with
    | none => rw [hf] at hq'; exact hb q' hq'
    | some r =>
      rw [hf] at hq'
      have hr := findFrom_le inp s p r hf
      cases b with
      | none => simp only [Option.some.injEq] at hq'; subst hq'; exact hr
      | some q0 =>
        simp only [] at hq'
        by_cases hlt : r < q0
        · simp only [hlt, ↓reduceIte, Option.some.injEq] at hq'; subst hq'; exact hr
        · simp only [hlt, ↓reduceIte, Option.some.injEq] at hq'; subst hq'; exact hb _ rfl

theorem skipUntilPos_le (subs : List Str) (p : Nat) (hp : p ≤ inp.size) :
    p ≤ L1.skipUntilPos inp subs p ∧ L1.skipUntilPos inp subs p ≤ inp.size := by
  unfold L1.skipUntilPos
  simp only []
  have h := skipUntil_fold_le inp p subs none (by intro q h; cases h)
  revert h
  generalize subs.foldl _ none = best
  intro h
  cases best with
  | none => exact ⟨hp, Nat.le_refl _⟩
  | some q => exact h q rfl

variable (g : Grammar)

theorem optMatchOnce_le (alts : List Alt) (p q : Nat) (h : L1.optMatchOnce g inp alts p = some q) :
    p ≤ q ∧ q ≤ inp.size := by
  unfold L1.optMatchOnce at h
  simp only [] at h
  split at h
  · rename_i s hs
    simp only [Option.some.injEq] at h; subst h
    have := startsWithAt_le inp s p (by simpa using List.find?_some hs)
    exact ⟨by omega, this⟩
  · split at h
    · rename_i s hs
      simp only [Option.some.injEq] at h; subst h
      have := startsWithAtCI_le inp s p (by simpa using List.find?_some hs)
      exact ⟨by omega, this⟩
    · split at h
      · cases h
      · rename_i c hc
        have := getElem?_lt inp hc
        split at h
        · simp only [Option.some.injEq] at h; subst h; exact ⟨by omega, by omega⟩
        · split at h
          · simp only [Option.some.injEq] at h; subst h; exact ⟨by omega, by omega⟩
          · cases h

theorem optMatchStar_le (alts : List Alt) : ∀ (k p : Nat),
    p ≤ L1.optMatchStar g inp alts k p ∧ (p ≤ inp.size → L1.optMatchStar g inp alts k p ≤ inp.size) := by
  intro k
  induction k with
  | zero => intro p; simp [L1.optMatchStar]
  | succ k ih =>
    intro p
    simp only [L1.optMatchStar]
    cases ho : L1.optMatchOnce g inp alts p with
    | none => simp
    | some q =>
      simp only []
      have hq := optMatchOnce_le inp g alts p q ho
      by_cases hlt : q > p
      · simp only [hlt, ↓reduceIte]
        have := ih q
        exact ⟨by omega, fun _ => this.2 hq.2⟩
      · simp [hlt]

theorem optMatch_le (alts : List Alt) (star : Bool) (p q : Nat)
    (h : L1.optMatch g inp alts star p = some q) : p ≤ q ∧ (p ≤ inp.size → q ≤ inp.size) := by
  unfold L1.optMatch at h
  by_cases he : alts.isEmpty = true
  · simp only [he, ↓reduceIte, Option.some.injEq] at h; subst h; exact ⟨Nat.le_refl _, id⟩
  · simp only [he, Bool.false_eq_true, ↓reduceIte] at h
    by_cases hs : star = true
    · simp only [hs, ↓reduceIte, Option.some.injEq] at h; subst h
      exact optMatchStar_le inp g alts _ p
    · simp only [hs, Bool.false_eq_true, ↓reduceIte] at h
      have := optMatchOnce_le inp g alts p q h
      exact ⟨this.1, fun _ => this.2⟩

end prim

/-! ### names of the rule objects embedded in a tree -/

mutual
/-- names of all `.rule` nodes (built-in rule objects embedded in a tree), nested ones included -/
def embNames : Expr → List String
  | .rule n _ _ b => n :: embNames b
  | .seq es => embNamesL es
  | .choice es => embNamesL es
  | .opt e => embNames e
  | .rep e => embNames e
  | .rep1 e => embNames e
  | .repExact e _ => embNames e
  | .repMin e _ => embNames e
  | .repMax e _ => embNames e
  | .repMinMax e _ _ => embNames e
  | .andP e => embNames e
  | .notP e => embNames e
  | .group e _ => embNames e
  | .push e => embNames e
  | _ => []
def embNamesL : List Expr → List String
  | [] => []
  | e :: es => embNames e ++ embNamesL es
end

theorem mem_embNamesL {n : String} : ∀ {es : List Expr}, n ∈ embNamesL es ↔ ∃ e ∈ es, n ∈ embNames e
  | [] => by simp [embNamesL]
  | e :: es => by simp [embNamesL, mem_embNamesL (es := es)]

/-- every embedded rule name satisfies `N` -/
def namesOK (N : String → Prop) (e : Expr) : Prop := ∀ n ∈ embNames e, N n

namespace namesOK
variable {N : String → Prop}
theorem seq {es : List Expr} (h : namesOK N (.seq es)) : ∀ e ∈ es, namesOK N e :=
  fun e he n hn => h n (by simp only [embNames]; exact mem_embNamesL.mpr ⟨e, he, hn⟩)
theorem choice {es : List Expr} (h : namesOK N (.choice es)) : ∀ e ∈ es, namesOK N e :=
  fun e he n hn => h n (by simp only [embNames]; exact mem_embNamesL.mpr ⟨e, he, hn⟩)
theorem rule {n : String} {m : Nat} {sm : Bool} {b : Expr} (h : namesOK N (.rule n m sm b)) :
    N n ∧ namesOK N b :=
  ⟨h n (by simp [embNames]), fun x hx => h x (by simp [embNames, hx])⟩
theorem opt {e : Expr} (h : namesOK N (.opt e)) : namesOK N e := fun n hn => h n (by simpa [embNames] using hn)
theorem rep {e : Expr} (h : namesOK N (.rep e)) : namesOK N e := fun n hn => h n (by simpa [embNames] using hn)
theorem rep1 {e : Expr} (h : namesOK N (.rep1 e)) : namesOK N e := fun n hn => h n (by simpa [embNames] using hn)
theorem repExact {e : Expr} {k : Nat} (h : namesOK N (.repExact e k)) : namesOK N e :=
  fun n hn => h n (by simpa [embNames] using hn)
theorem repMin {e : Expr} {k : Nat} (h : namesOK N (.repMin e k)) : namesOK N e :=
  fun n hn => h n (by simpa [embNames] using hn)
theorem repMax {e : Expr} {k : Nat} (h : namesOK N (.repMax e k)) : namesOK N e :=
  fun n hn => h n (by simpa [embNames] using hn)
theorem repMinMax {e : Expr} {k l : Nat} (h : namesOK N (.repMinMax e k l)) : namesOK N e :=
  fun n hn => h n (by simpa [embNames] using hn)
theorem andP {e : Expr} (h : namesOK N (.andP e)) : namesOK N e := fun n hn => h n (by simpa [embNames] using hn)
theorem notP {e : Expr} (h : namesOK N (.notP e)) : namesOK N e := fun n hn => h n (by simpa [embNames] using hn)
theorem group {e : Expr} {t : Option String} (h : namesOK N (.group e t)) : namesOK N e :=
  fun n hn => h n (by simpa [embNames] using hn)
theorem push {e : Expr} (h : namesOK N (.push e)) : namesOK N e := fun n hn => h n (by simpa [embNames] using hn)
theorem mk_opt {e : Expr} (h : namesOK N e) : namesOK N (.opt e) := fun n hn => h n (by simpa [embNames] using hn)
theorem mk_rep {e : Expr} (h : namesOK N e) : namesOK N (.rep e) := fun n hn => h n (by simpa [embNames] using hn)
end namesOK

/-! ### grammar lookups return members of the rule table -/

theorem lookup_mem_name {g : Grammar} {n : String} {r : Rule} (h : g.lookup n = some r) :
    r ∈ g.rules ∧ r.name = n := by
  unfold Grammar.lookup at h
  exact ⟨List.mem_of_find?_eq_some h, by simpa using List.find?_some h⟩

theorem fusedSkip_mem_rules {g : Grammar} {r : Rule} (h : g.fusedSkip = some r) : r ∈ g.rules := by
  unfold Grammar.fusedSkip at h
  cases hl : g.lookup "SKIP" with
  | none => rw [hl] at h; cases h
  | some r' =>
    rw [hl] at h
    simp only [] at h
    split at h
    · simp only [Option.some.injEq] at h; subst h; exact (lookup_mem_name hl).1
    · cases h

/-! ### the abstract invariant -/

/-- `c'` differs from `c` only in components neither invariant looks at (user stack, atomic
    depth, tag stack, negative-predicate depth, suppress flag) -/
structure Core (c c' : PState) : Prop where
  pos : c'.pos = c.pos
  ph : c'.posHist = c.posHist
  rs : c'.rstack = c.rstack
  fp : c'.fpos = c.fpos
  fe : c'.fexp = c.fexp
  fu : c'.funexp = c.funexp
  fs : c'.fstack = c.fstack

theorem Core.refl (c : PState) : Core c c := ⟨rfl, rfl, rfl, rfl, rfl, rfl, rfl⟩
theorem Core.trans {a b c : PState} (h1 : Core a b) (h2 : Core b c) : Core a c :=
  ⟨h2.pos.trans h1.pos, h2.ph.trans h1.ph, h2.rs.trans h1.rs, h2.fp.trans h1.fp,
   h2.fe.trans h1.fe, h2.fu.trans h1.fu, h2.fs.trans h1.fs⟩

/-- an invariant `I` of parser states and a predicate `N` on rule names, closed under every
    state operation the two models perform -/
structure Kit (g : Grammar) (inp : Input) where
  I : PState → Prop
  N : String → Prop
  core : ∀ {c c' : PState}, I c → Core c c' → I c'
  setPos : ∀ {c : PState} (q : Nat), I c → (c.pos ≤ inp.size → c.pos ≤ q ∧ q ≤ inp.size) →
    I { c with pos := q }
  checkpoint : ∀ {c : PState}, I c → I c.checkpoint
  ok : ∀ {c : PState}, I c → I c.ok
  restore : ∀ {c : PState}, I c → I c.restore
  push : ∀ {c : PState} (name : String), I c → N name → I { c with rstack := c.rstack.push name }
  pop : ∀ {c : PState} {x : String} {rs : DStack String}, I c → c.rstack.pop = some (x, rs) →
    I { c with rstack := rs }
  fail : ∀ {c c' : PState} {rn : Option String} {force : Bool}, I c → (∀ n, rn = some n → N n) →
    c.fail rn force = some c' → I c'
  rule : ∀ r ∈ g.rules, N r.name ∧ namesOK N r.body

/-! ### L1: every node preserves the invariant -/

section generic
variable {g : Grammar} {inp : Input} (K : Kit g inp)

/-- what a semantic function must satisfy: the invariant is preserved by every finished call
    on an expression whose embedded rule names are fine, and an `Identifier` that finished
    referred to a defined rule -/
def PK (rec : Sem1) : Prop :=
  ∀ e c m c' ps, namesOK K.N e → K.I c → rec e c = .done m c' ps →
    K.I c' ∧ (∀ n t, e = .ident n t → (g.lookup n).isSome = true)

theorem failT_inv {c c' : PState} {m : Bool} {ps : List Pair} (hI : K.I c)
    (h : L1.failT c = .done m c' ps) : K.I c' := by
  unfold L1.failT at h
  cases hf : c.fail none false with
  | none => rw [hf] at h; cases h
  | some c1 =>
    rw [hf] at h
    simp only [R1.done.injEq] at h
    obtain ⟨_, rfl, _⟩ := h
    exact K.fail hI (by intro n hn; cases hn) hf

theorem ruleEnter_core (name : String) (mod : Nat) (d : PState) : Core d (L1.ruleEnter name mod d) := by
  unfold L1.ruleEnter
  split
  · exact ⟨rfl, rfl, rfl, rfl, rfl, rfl, rfl⟩
  · split
    · exact ⟨rfl, rfl, rfl, rfl, rfl, rfl, rfl⟩
    · exact Core.refl d

theorem ruleExit_inv {name : String} {mod start : Nat} {matched m : Bool} {c2 c' : PState}
    {children ps : List Pair} (hI : K.I c2)
    (h : L1.ruleExit name mod start matched c2 children = .done m c' ps) : K.I c' := by
  unfold L1.ruleExit at h
  generalize hc3 : (if L1.ruleScoped name mod then ({ c2 with adepth := c2.adepth.restore } : PState) else c2) = c3 at h
  have h3 : K.I c3 := by
    subst hc3
    split
    · exact K.core hI ⟨rfl, rfl, rfl, rfl, rfl, rfl, rfl⟩
    · exact hI
  simp only [] at h
  cases hp : c3.rstack.pop with
  | none => simp only [hp] at h; cases h
  | some q =>
    obtain ⟨x, rs⟩ := q
    simp only [hp] at h
    have h4 := K.pop h3 hp
    cases matched with
    | false =>
      simp only [Bool.not_false, ↓reduceIte, R1.done.injEq] at h
      obtain ⟨_, rfl, _⟩ := h; exact h4
    | true =>
      simp only [Bool.not_true, Bool.false_eq_true, ↓reduceIte] at h
      by_cases hS : hasBit mod SILENT = true
      · simp only [hS, ↓reduceIte, R1.done.injEq] at h
        obtain ⟨_, rfl, _⟩ := h; exact h4
      · simp only [hS, Bool.false_eq_true, ↓reduceIte] at h
        cases ht : c3.tagStack with
        | nil =>
          simp only [ht, R1.done.injEq] at h
          obtain ⟨_, rfl, _⟩ := h
          exact K.core h4 ⟨rfl, rfl, rfl, rfl, rfl, rfl, rfl⟩
        | cons t ts =>
          simp only [ht, R1.done.injEq] at h
          obtain ⟨_, rfl, _⟩ := h
          exact K.core h4 ⟨rfl, rfl, rfl, rfl, rfl, rfl, rfl⟩

theorem ruleParse_inv {rec : Sem1} (hr : PK K rec) {name : String} {mod : Nat} {body : Expr}
    {c c' : PState} {m : Bool} {ps : List Pair} (hN : K.N name) (hE : namesOK K.N body) (hI : K.I c)
    (h : L1.ruleParse rec name mod body c = .done m c' ps) : K.I c' := by
  unfold L1.ruleParse at h
  have hen : K.I (L1.ruleEnter name mod { c with rstack := c.rstack.push name }) :=
    K.core (K.push name hI hN) (ruleEnter_core _ _ _)
  revert h
  generalize L1.ruleEnter name mod { c with rstack := c.rstack.push name } = en at hen
  cases hb : rec body en with
  | oof => intro h; cases h
  | exc k => intro h; cases h
  | done m2 c2 ch =>
    intro h
    simp only [] at h
    exact ruleExit_inv K (hr body en m2 c2 ch hE hen hb).1 h

theorem withTag_done {tag : Option String} {c c' : PState} {body : PState → R1} {m : Bool}
    {ps : List Pair} (h : L1.withTag tag c body = .done m c' ps) :
    ∃ d m2 c2 ps2, Core c d ∧ body d = .done m2 c2 ps2 ∧ Core c2 c' := by
  unfold L1.withTag at h
  cases tag with
  | none => exact ⟨c, m, c', ps, Core.refl c, h, Core.refl c'⟩
  | some t =>
    simp only [] at h
    revert h
    cases hb : body { c with tagStack := t :: c.tagStack } with
    | oof => intro h; cases h
    | exc k => intro h; cases h
    | done m2 c2 ps2 =>
      intro h
      simp only [R1.done.injEq] at h
      obtain ⟨_, rfl, _⟩ := h
      exact ⟨{ c with tagStack := t :: c.tagStack }, m2, c2, ps2, ⟨rfl, rfl, rfl, rfl, rfl, rfl, rfl⟩, hb,
        ⟨rfl, rfl, rfl, rfl, rfl, rfl, rfl⟩⟩

theorem callRule_inv {rec : Sem1} (hr : PK K rec) {name : String} {c c' : PState} {m : Bool}
    {ps : List Pair} (hI : K.I c) (h : L1.callRule g rec name c = .done m c' ps) :
    K.I c' ∧ (g.lookup name).isSome = true := by
  unfold L1.callRule at h
  cases hl : g.lookup name with
  | none => rw [hl] at h; cases h
  | some r =>
    rw [hl] at h
    simp only [] at h
    have hk := K.rule r (lookup_mem_name hl).1
    exact ⟨ruleParse_inv K hr hk.1 hk.2 hI h, rfl⟩

def TryI : L1.TryR → Prop
  | .matched c _ => K.I c
  | .no c => K.I c
  | .stop r => ∀ m c' ps, r = .done m c' ps → K.I c'

theorem tryTrivia_inv {rec : Sem1} (hr : PK K rec) (r : Option Rule)
    (hmem : ∀ x, r = some x → x ∈ g.rules) {c : PState} (hI : K.I c) :
    TryI K (L1.tryTrivia rec r c) := by
  unfold L1.tryTrivia
  cases r with
  | none => exact hI
  | some r =>
    simp only []
    have hk := K.rule r (hmem r rfl)
    cases hb : L1.ruleParse rec r.name r.mod r.body c.checkpoint with
    | oof => intro _ _ _ h; cases h
    | exc k => intro _ _ _ h; cases h
    | done m c1 ps =>
      have := ruleParse_inv K hr hk.1 hk.2 (K.checkpoint hI) hb
      cases m with
      | true => exact K.ok this
      | false => exact K.restore this

theorem triviaLoop_inv {rec : Sem1} (hr : PK K rec) (ws cm : Option Rule)
    (hws : ∀ x, ws = some x → x ∈ g.rules) (hcm : ∀ x, cm = some x → x ∈ g.rules) :
    ∀ (k : Nat) (c : PState) (acc : List Pair) (m : Bool) (c' : PState) (ps : List Pair), K.I c →
      L1.triviaLoop rec ws cm k c acc = .done m c' ps → K.I c' := by
  intro k
  induction k with
  | zero => intro c acc m c' ps _ h; simp [L1.triviaLoop] at h
  | succ k ih =>
    intro c acc m c' ps hI h
    simp only [L1.triviaLoop] at h
    have h1 := tryTrivia_inv K hr ws hws hI
    revert h h1
    cases L1.tryTrivia rec ws c with
    | matched c1 ps1 => intro h h1; exact ih _ _ _ _ _ h1 h
    | stop r => intro h h1; exact h1 _ _ _ h
    | no c1 =>
      intro h h1
      simp only [] at h
      have h2 := tryTrivia_inv K hr cm hcm (c := c1) h1
      revert h h2
      cases L1.tryTrivia rec cm c1 with
      | matched c2 ps2 => intro h h2; exact ih _ _ _ _ _ h2 h
      | stop r => intro h h2; exact h2 _ _ _ h
      | no c2 =>
        intro h h2
        simp only [R1.done.injEq] at h
        obtain ⟨_, rfl, _⟩ := h; exact h2

theorem parseTrivia_inv {rec : Sem1} (hr : PK K rec) (k : Nat) {c c' : PState} {m : Bool}
    {ps : List Pair} (hI : K.I c) (h : L1.parseTrivia g rec k c = .done m c' ps) : K.I c' := by
  unfold L1.parseTrivia at h
  by_cases ha : c.adepth.val > 0
  · simp only [ha, ↓reduceIte, R1.done.injEq] at h
    obtain ⟨_, rfl, _⟩ := h; exact hI
  · simp only [ha, ↓reduceIte] at h
    cases hsk : g.fusedSkip with
    | some skip =>
      simp only [hsk] at h
      have hk := K.rule skip (fusedSkip_mem_rules hsk)
      exact ruleParse_inv K hr hk.1 hk.2 hI h
    | none =>
      simp only [hsk] at h
      by_cases hn : ((g.lookup "WHITESPACE").isNone && (g.lookup "COMMENT").isNone) = true
      · simp only [hn, ↓reduceIte, R1.done.injEq] at h
        obtain ⟨_, rfl, _⟩ := h; exact hI
      · simp only [hn, Bool.false_eq_true, ↓reduceIte] at h
        have hs : K.I { c with suppress := true } := K.core hI ⟨rfl, rfl, rfl, rfl, rfl, rfl, rfl⟩
        revert h
        cases hl : L1.triviaLoop rec (g.lookup "WHITESPACE") (g.lookup "COMMENT") k { c with suppress := true } [] with
        | oof => intro h; cases h
        | exc kx => intro h; cases h
        | done m2 c2 ps2 =>
          intro h
          simp only [R1.done.injEq] at h
          obtain ⟨_, rfl, _⟩ := h
          have := triviaLoop_inv K hr _ _ (fun x hx => (lookup_mem_name hx).1) (fun x hx => (lookup_mem_name hx).1)
            k _ _ _ _ _ hs hl
          exact K.core this ⟨rfl, rfl, rfl, rfl, rfl, rfl, rfl⟩

theorem seqParse_inv {rec : Sem1} (hr : PK K rec) (k : Nat) :
    ∀ (es : List Expr) (c : PState) (acc : List Pair) (m : Bool) (c' : PState) (ps : List Pair),
      (∀ e ∈ es, namesOK K.N e) → K.I c → L1.seqParse g rec k es c acc = .done m c' ps → K.I c' := by
  intro es
  induction es with
  | nil =>
    intro c acc m c' ps _ hI h
    simp only [L1.seqParse, R1.done.injEq] at h
    obtain ⟨_, rfl, _⟩ := h; exact hI
  | cons e rest ih =>
    intro c acc m c' ps hE hI h
    simp only [L1.seqParse] at h
    revert h
    cases hb : rec e c with
    | oof => intro h; cases h
    | exc kx => intro h; cases h
    | done m1 c1 ps1 =>
      have h1 := (hr e c m1 c1 ps1 (hE e (List.mem_cons_self ..)) hI hb).1
      cases m1 with
      | false =>
        intro h
        simp only [R1.done.injEq] at h
        obtain ⟨_, rfl, _⟩ := h; exact h1
      | true =>
        intro h
        simp only [] at h
        by_cases hre : rest.isEmpty = true
        · simp only [hre, ↓reduceIte, R1.done.injEq] at h
          obtain ⟨_, rfl, _⟩ := h; exact h1
        · simp only [hre, Bool.false_eq_true, ↓reduceIte] at h
          revert h
          cases ht : L1.parseTrivia g rec k c1 with
          | oof => intro h; cases h
          | exc kx => intro h; cases h
          | done m2 c2 tps =>
            intro h
            simp only [] at h
            exact ih c2 _ m c' ps (fun x hx => hE x (List.mem_cons_of_mem _ hx))
              (parseTrivia_inv K hr k h1 ht) h

theorem choiceParse_inv {rec : Sem1} (hr : PK K rec) :
    ∀ (es : List Expr) (c : PState) (m : Bool) (c' : PState) (ps : List Pair),
      (∀ e ∈ es, namesOK K.N e) → K.I c → L1.choiceParse rec es c = .done m c' ps → K.I c' := by
  intro es
  induction es with
  | nil =>
    intro c m c' ps _ hI h
    simp only [L1.choiceParse, R1.done.injEq] at h
    obtain ⟨_, rfl, _⟩ := h; exact hI
  | cons e rest ih =>
    intro c m c' ps hE hI h
    simp only [L1.choiceParse] at h
    revert h
    cases hb : rec e c.checkpoint with
    | oof => intro h; cases h
    | exc kx => intro h; cases h
    | done m1 c1 ps1 =>
      have h1 := (hr e _ m1 c1 ps1 (hE e (List.mem_cons_self ..)) (K.checkpoint hI) hb).1
      cases m1 with
      | true =>
        intro h
        simp only [R1.done.injEq] at h
        obtain ⟨_, rfl, _⟩ := h; exact K.ok h1
      | false =>
        intro h
        simp only [] at h
        exact ih _ m c' ps (fun x hx => hE x (List.mem_cons_of_mem _ hx)) (K.restore h1) h

theorem repLoop_inv {rec : Sem1} (hr : PK K rec) (e : Expr) (hE : namesOK K.N e) (kk : Nat) :
    ∀ (k : Nat) (first : Bool) (c : PState) (acc : List Pair) (m : Bool) (c' : PState) (ps : List Pair),
      K.I c → L1.repLoop g rec e k kk first c acc = .done m c' ps → K.I c' := by
  intro k
  induction k with
  | zero => intro first c acc m c' ps _ h; simp [L1.repLoop] at h
  | succ k ih =>
    intro first c acc m c' ps hI h
    simp only [L1.repLoop] at h
    have hT : ∀ m1 c1 tps, (if first = true then R1.done true c.checkpoint [] else
        L1.parseTrivia g rec kk c.checkpoint) = .done m1 c1 tps → K.I c1 := by
      intro m1 c1 tps ht
      by_cases hf : first = true
      · simp only [hf, ↓reduceIte, R1.done.injEq] at ht
        obtain ⟨_, rfl, _⟩ := ht; exact K.checkpoint hI
      · simp only [hf, Bool.false_eq_true, ↓reduceIte] at ht
        exact parseTrivia_inv K hr kk (K.checkpoint hI) ht
    revert h hT
    cases (if first = true then R1.done true c.checkpoint [] else L1.parseTrivia g rec kk c.checkpoint) with
    | oof => intro h _; cases h
    | exc kx => intro h _; cases h
    | done m1 c1 tps =>
      intro h hT
      have h1 := hT m1 c1 tps rfl
      simp only [] at h
      revert h
      cases hb : rec e c1 with
      | oof => intro h; cases h
      | exc kx => intro h; cases h
      | done m2 c2 ps2 =>
        have h2 := (hr e c1 m2 c2 ps2 hE h1 hb).1
        cases m2 with
        | true => intro h; simp only [] at h; exact ih false _ _ m c' ps (K.ok h2) h
        | false =>
          intro h
          simp only [R1.done.injEq] at h
          obtain ⟨_, rfl, _⟩ := h; exact K.restore h2

theorem popAllLoop_inv :
    ∀ (k : Nat) (d : PState) (position : Nat) (m : Bool) (c' : PState) (ps : List Pair), K.I d →
      (d.pos ≤ inp.size → d.pos ≤ position ∧ position ≤ inp.size) →
      L1.popAllLoop inp k d position = .done m c' ps → K.I c' := by
  intro k
  induction k with
  | zero => intro d position m c' ps _ _ h; simp [L1.popAllLoop] at h
  | succ k ih =>
    intro d position m c' ps hI hp h
    simp only [L1.popAllLoop] at h
    cases hpop : d.ustack.pop with
    | none =>
      simp only [hpop, R1.done.injEq] at h
      obtain ⟨_, rfl, _⟩ := h
      exact K.setPos position (K.ok hI) hp
    | some q =>
      obtain ⟨lit, us⟩ := q
      simp only [hpop] at h
      have h1 : K.I { d with ustack := us } := K.core hI ⟨rfl, rfl, rfl, rfl, rfl, rfl, rfl⟩
      by_cases hm : startsWithAt inp lit position = true
      · simp only [hm, ↓reduceIte] at h
        have hle := startsWithAt_le inp lit position hm
        refine ih _ _ m c' ps h1 ?_ h
        intro hd
        have := hp hd
        exact ⟨Nat.le_trans this.1 (Nat.le_add_right _ _), hle⟩
      · simp only [hm, Bool.false_eq_true, ↓reduceIte] at h
        exact failT_inv K (K.restore h1) h

theorem adv_inv {c : PState} (hI : K.I c) (len : Nat) (h : c.pos + len ≤ inp.size) :
    K.I { c with pos := c.pos + len } :=
  K.setPos _ hI (fun _ => ⟨Nat.le_add_right _ _, h⟩)

theorem namesOK_replicate {N : String → Prop} {e : Expr} (h : namesOK N e) (n : Nat) :
    ∀ x ∈ List.replicate n e, namesOK N x := by
  intro x hx; rw [(List.mem_replicate.mp hx).2]; exact h

theorem namesOK_append {N : String → Prop} {l1 l2 : List Expr} (h1 : ∀ x ∈ l1, namesOK N x)
    (h2 : ∀ x ∈ l2, namesOK N x) : ∀ x ∈ l1 ++ l2, namesOK N x := by
  intro x hx
  rcases List.mem_append.mp hx with h | h
  · exact h1 x h
  · exact h2 x h

theorem namesOK_single {N : String → Prop} {e : Expr} (h : namesOK N e) : ∀ x ∈ [e], namesOK N x := by
  intro x hx; rw [List.mem_singleton.mp hx]; exact h

/-- the name `NegativePredicate` records is fine when its operand has just matched -/
theorem failedName_ok {e : Expr} (hE : namesOK K.N e)
    (hid : ∀ n t, e = .ident n t → (g.lookup n).isSome = true) :
    ∀ n, L1.failedName e = some n → K.N n := by
  intro n hn
  cases e with
  | ident n' t =>
    simp only [L1.failedName, Option.some.injEq] at hn; subst hn
    obtain ⟨r, hl⟩ := Option.isSome_iff_exists.mp (hid n' t rfl)
    obtain ⟨hm, hname⟩ := lookup_mem_name hl
    rw [← hname]; exact (K.rule r hm).1
  | rule n' md sm b =>
    simp only [L1.failedName, Option.some.injEq] at hn; subst hn
    exact hE.rule.1
  | _ => simp [L1.failedName] at hn

theorem step_pk (k : Nat) {rec : Sem1} (hr : PK K rec) : PK K (L1.step g inp k rec) := by
  intro e c m c' ps hE hI h
  refine ⟨?_, ?_⟩
  · cases e with
    | str s =>
      simp only [L1.step] at h
      by_cases hm : startsWithAt inp s c.pos = true
      · simp only [hm, ↓reduceIte, R1.done.injEq] at h
        obtain ⟨_, rfl, _⟩ := h
        exact adv_inv K hI _ (startsWithAt_le inp s c.pos hm)
      · simp only [hm, Bool.false_eq_true, ↓reduceIte] at h; exact failT_inv K hI h
    | ci s =>
      simp only [L1.step] at h
      by_cases hm : startsWithAtCI inp s c.pos = true
      · simp only [hm, ↓reduceIte, R1.done.injEq] at h
        obtain ⟨_, rfl, _⟩ := h
        exact adv_inv K hI _ (startsWithAtCI_le inp s c.pos hm)
      · simp only [hm, Bool.false_eq_true, ↓reduceIte] at h; exact failT_inv K hI h
    | range a b =>
      simp only [L1.step] at h
      cases hx : inp[c.pos]? with
      | none => simp only [hx] at h; exact failT_inv K hI h
      | some x =>
        simp only [hx] at h
        have hlt := getElem?_lt inp hx
        by_cases hm : L1.inRange a b x = true
        · simp only [hm, ↓reduceIte, R1.done.injEq] at h
          obtain ⟨_, rfl, _⟩ := h
          exact adv_inv K hI 1 hlt
        · simp only [hm, Bool.false_eq_true, ↓reduceIte] at h; exact failT_inv K hI h
    | ident name tag =>
      simp only [L1.step] at h
      obtain ⟨d, m2, c2, ps2, cd, hb, cc⟩ := withTag_done h
      exact K.core (callRule_inv K hr (K.core hI cd) hb).1 cc
    | rule name mod sm body =>
      simp only [L1.step] at h
      exact ruleParse_inv K hr hE.rule.1 hE.rule.2 hI h
    | seq es => simp only [L1.step] at h; exact seqParse_inv K hr k es c [] m c' ps hE.seq hI h
    | choice es => simp only [L1.step] at h; exact choiceParse_inv K hr es c m c' ps hE.choice hI h
    | opt e =>
      simp only [L1.step] at h
      revert h
      cases hb : rec e c.checkpoint with
      | oof => intro h; cases h
      | exc kx => intro h; cases h
      | done m1 c1 ps1 =>
        have h1 := (hr e _ m1 c1 ps1 hE.opt (K.checkpoint hI) hb).1
        cases m1 with
        | true => intro h; simp only [R1.done.injEq] at h; obtain ⟨_, rfl, _⟩ := h; exact K.ok h1
        | false => intro h; simp only [R1.done.injEq] at h; obtain ⟨_, rfl, _⟩ := h; exact K.restore h1
    | rep e => simp only [L1.step] at h; exact repLoop_inv K hr e hE.rep k k true c [] m c' ps hI h
    | rep1 e =>
      simp only [L1.step] at h
      refine seqParse_inv K hr k _ c [] m c' ps ?_ hI h
      exact namesOK_append (namesOK_single hE.rep1) (namesOK_single hE.rep1.mk_rep)
    | repExact e n =>
      simp only [L1.step] at h
      exact seqParse_inv K hr k _ c [] m c' ps (namesOK_replicate hE.repExact n) hI h
    | repMin e n =>
      simp only [L1.step] at h
      exact seqParse_inv K hr k _ c [] m c' ps
        (namesOK_append (namesOK_replicate hE.repMin n) (namesOK_single hE.repMin.mk_rep)) hI h
    | repMax e n =>
      simp only [L1.step] at h
      exact seqParse_inv K hr k _ c [] m c' ps (namesOK_replicate hE.repMax.mk_opt n) hI h
    | repMinMax e m1 n =>
      simp only [L1.step] at h
      exact seqParse_inv K hr k _ c [] m c' ps
        (namesOK_append (namesOK_replicate hE.repMinMax m1) (namesOK_replicate hE.repMinMax.mk_opt _)) hI h
    | andP e =>
      simp only [L1.step] at h
      revert h
      cases hb : rec e c.checkpoint with
      | oof => intro h; cases h
      | exc kx => intro h; cases h
      | done m1 c1 ps1 =>
        have h1 := (hr e _ m1 c1 ps1 hE.andP (K.checkpoint hI) hb).1
        intro h; simp only [R1.done.injEq] at h; obtain ⟨_, rfl, _⟩ := h; exact K.restore h1
    | notP e =>
      simp only [L1.step] at h
      have hc0 : K.I { c.checkpoint with negDepth := c.checkpoint.negDepth + 1 } :=
        K.core (K.checkpoint hI) ⟨rfl, rfl, rfl, rfl, rfl, rfl, rfl⟩
      revert h
      cases hb : rec e { c.checkpoint with negDepth := c.checkpoint.negDepth + 1 } with
      | oof => intro h; cases h
      | exc kx => intro h; cases h
      | done matched c1 ps1 =>
        intro h
        simp only [] at h
        obtain ⟨h1, hid⟩ := hr e _ _ _ _ hE.notP hc0 hb
        have h2 := K.restore h1
        cases matched with
        | false =>
          simp only [Bool.false_eq_true, ↓reduceIte, R1.done.injEq] at h
          obtain ⟨_, rfl, _⟩ := h
          exact K.core h2 ⟨rfl, rfl, rfl, rfl, rfl, rfl, rfl⟩
        | true =>
          simp only [↓reduceIte] at h
          cases hf : c1.restore.fail (L1.failedName e) true with
          | none => rw [hf] at h; cases h
          | some c3 =>
            rw [hf] at h
            simp only [R1.done.injEq] at h
            obtain ⟨_, rfl, _⟩ := h
            exact K.core (K.fail h2 (failedName_ok K hE.notP hid) hf) ⟨rfl, rfl, rfl, rfl, rfl, rfl, rfl⟩
    | group e tag =>
      simp only [L1.step] at h
      obtain ⟨d, m2, c2, ps2, cd, hb, cc⟩ := withTag_done h
      exact K.core (hr e d m2 c2 ps2 hE.group (K.core hI cd) hb).1 cc
    | push e =>
      simp only [L1.step] at h
      revert h
      cases hb : rec e c with
      | oof => intro h; cases h
      | exc kx => intro h; cases h
      | done m1 c1 ps1 =>
        have h1 := (hr e _ m1 c1 ps1 hE.push hI hb).1
        cases m1 with
        | true =>
          intro h; simp only [R1.done.injEq] at h; obtain ⟨_, rfl, _⟩ := h
          exact K.core h1 ⟨rfl, rfl, rfl, rfl, rfl, rfl, rfl⟩
        | false => intro h; simp only [R1.done.injEq] at h; obtain ⟨_, rfl, _⟩ := h; exact h1
    | pushLit s =>
      simp only [L1.step, R1.done.injEq] at h
      obtain ⟨_, rfl, _⟩ := h
      exact K.core hI ⟨rfl, rfl, rfl, rfl, rfl, rfl, rfl⟩
    | peekSlice a b =>
      simp only [L1.step] at h
      cases hq : L1.matchAll inp (pySlice c.ustack.items.reverse a b) c.pos with
      | none => simp only [hq] at h; exact failT_inv K hI h
      | some q =>
        simp only [hq, R1.done.injEq] at h
        obtain ⟨_, rfl, _⟩ := h
        have := matchAll_le inp _ _ _ hq
        exact K.setPos q hI (fun hp => ⟨this.1, this.2 hp⟩)
    | peek =>
      simp only [L1.step] at h
      cases hv : c.ustack.peek with
      | none => simp only [hv, R1.done.injEq] at h; obtain ⟨_, rfl, _⟩ := h; exact hI
      | some v =>
        simp only [hv] at h
        by_cases hm : startsWithAt inp v c.pos = true
        · simp only [hm, ↓reduceIte, R1.done.injEq] at h
          obtain ⟨_, rfl, _⟩ := h
          exact adv_inv K hI _ (startsWithAt_le inp v c.pos hm)
        · simp only [hm, Bool.false_eq_true, ↓reduceIte] at h; exact failT_inv K hI h
    | peekAll =>
      simp only [L1.step] at h
      cases hq : L1.matchAll inp c.ustack.items c.pos with
      | none => simp only [hq] at h; exact failT_inv K hI h
      | some q =>
        simp only [hq, R1.done.injEq] at h
        obtain ⟨_, rfl, _⟩ := h
        have := matchAll_le inp _ _ _ hq
        exact K.setPos q hI (fun hp => ⟨this.1, this.2 hp⟩)
    | pop =>
      simp only [L1.step] at h
      cases hv : c.ustack.peek with
      | none => simp only [hv, R1.done.injEq] at h; obtain ⟨_, rfl, _⟩ := h; exact hI
      | some v =>
        simp only [hv] at h
        by_cases hm : startsWithAt inp v c.pos = true
        · simp only [hm, ↓reduceIte] at h
          cases hp : c.ustack.pop with
          | none => simp only [hp] at h; cases h
          | some q =>
            obtain ⟨x, us⟩ := q
            simp only [hp, R1.done.injEq] at h
            obtain ⟨_, rfl, _⟩ := h
            exact K.core (adv_inv K hI _ (startsWithAt_le inp v c.pos hm)) ⟨rfl, rfl, rfl, rfl, rfl, rfl, rfl⟩
        · simp only [hm, Bool.false_eq_true, ↓reduceIte] at h; exact failT_inv K hI h
    | popAll =>
      simp only [L1.step] at h
      exact popAllLoop_inv K _ _ _ m c' ps (K.checkpoint hI) (fun hp => ⟨Nat.le_refl _, hp⟩) h
    | drop =>
      simp only [L1.step] at h
      cases hp : c.ustack.pop with
      | none => simp only [hp] at h; exact failT_inv K hI h
      | some q =>
        obtain ⟨x, us⟩ := q
        simp only [hp, R1.done.injEq] at h
        obtain ⟨_, rfl, _⟩ := h
        exact K.core hI ⟨rfl, rfl, rfl, rfl, rfl, rfl, rfl⟩
    | anyB =>
      simp only [L1.step] at h
      by_cases hm : c.pos < inp.size
      · simp only [hm, ↓reduceIte, R1.done.injEq] at h
        obtain ⟨_, rfl, _⟩ := h
        exact adv_inv K hI 1 hm
      · simp only [hm, ↓reduceIte, R1.done.injEq] at h; obtain ⟨_, rfl, _⟩ := h; exact hI
    | soiB => simp only [L1.step, R1.done.injEq] at h; obtain ⟨_, rfl, _⟩ := h; exact hI
    | eoiB => simp only [L1.step, R1.done.injEq] at h; obtain ⟨_, rfl, _⟩ := h; exact hI
    | uprop n =>
      simp only [L1.step] at h
      cases hx : inp[c.pos]? with
      | none => simp only [hx, R1.done.injEq] at h; obtain ⟨_, rfl, _⟩ := h; exact hI
      | some x =>
        simp only [hx] at h
        have hlt := getElem?_lt inp hx
        by_cases hm : g.uprop n x = true
        · simp only [hm, ↓reduceIte, R1.done.injEq] at h
          obtain ⟨_, rfl, _⟩ := h
          exact adv_inv K hI 1 hlt
        · simp only [hm, Bool.false_eq_true, ↓reduceIte, R1.done.injEq] at h
          obtain ⟨_, rfl, _⟩ := h; exact hI
    | skipUntil subs =>
      simp only [L1.step, R1.done.injEq] at h
      obtain ⟨_, rfl, _⟩ := h
      exact K.setPos _ hI (fun hp => skipUntilPos_le inp subs c.pos hp)
    | optChoice alts star =>
      simp only [L1.step] at h
      cases hq : L1.optMatch g inp alts star c.pos with
      | none => simp only [hq, R1.done.injEq] at h; obtain ⟨_, rfl, _⟩ := h; exact hI
      | some q =>
        simp only [hq, R1.done.injEq] at h
        obtain ⟨_, rfl, _⟩ := h
        have := optMatch_le inp g alts star c.pos q hq
        exact K.setPos q hI (fun hp => ⟨this.1, this.2 hp⟩)
  · intro n t he
    subst he
    simp only [L1.step] at h
    obtain ⟨d, m2, c2, ps2, cd, hb, _⟩ := withTag_done h
    exact (callRule_inv K hr (K.core hI cd) hb).2

theorem run_pk : ∀ n, PK K (L1.run g inp n) := by
  intro n
  induction n with
  | zero => intro e c m c' ps _ _ h; simp [L1.run] at h
  | succ n ih => exact step_pk K n ih

end generic

/-! ### instance 1: positions stay in range -/

/-- position, saved positions and furthest-failure position lie in `[k, len(input)]`
    (`fpos` may still be the sentinel `-1`) -/
structure Bounded (inp : Input) (k : Nat) (c : PState) : Prop where
  lo : k ≤ c.pos
  hi : c.pos ≤ inp.size
  hist : ∀ p ∈ c.posHist, k ≤ p ∧ p ≤ inp.size
  fp : c.fpos = -1 ∨ ((k : Int) ≤ c.fpos ∧ c.fpos ≤ (inp.size : Int))

theorem bounded_init (inp : Input) (k : Nat) (hk : k ≤ inp.size) : Bounded inp k (PState.init k) :=
  ⟨Nat.le_refl _, hk, by intro p hp; simp [PState.init] at hp, Or.inl rfl⟩

/-- `fail()` leaves the furthest-failure position alone or moves it to the current position -/
theorem fail_fpos {c c' : PState} {rn : Option String} {force : Bool}
    (h : c.fail rn force = some c') : c'.fpos = c.fpos ∨ c'.fpos = (c.pos : Int) := by
  unfold PState.fail at h
  by_cases hs : ((c.negDepth > 0 && !force) || c.suppress) = true
  · simp only [hs, ↓reduceIte, Option.some.injEq] at h; subst h; exact Or.inl rfl
  · simp only [hs] at h
    cases hn : c.failName rn with
    | none => simp [hn] at h
    | some nm =>
      simp [hn] at h
      subst h
      rw [failRecord_fpos]
      by_cases hgt : ((c.failPos none : Nat) : Int) > c.fpos
      · rw [if_pos hgt]; exact Or.inr rfl
      · rw [if_neg hgt]; exact Or.inl rfl

theorem bounded_fail {inp : Input} {k : Nat} {c c' : PState} {rn : Option String} {force : Bool}
    (hb : Bounded inp k c) (h : c.fail rn force = some c') : Bounded inp k c' := by
  obtain ⟨h0, h1, _⟩ := fail_same h
  refine ⟨by rw [h0]; exact hb.lo, by rw [h0]; exact hb.hi, by rw [h1]; exact hb.hist, ?_⟩
  rcases fail_fpos h with hf | hf
  · rw [hf]; exact hb.fp
  · rw [hf]; exact Or.inr ⟨by have := hb.lo; omega, by have := hb.hi; omega⟩

theorem bounded_restore {inp : Input} {k : Nat} {c : PState} (h : Bounded inp k c) :
    Bounded inp k c.restore := by
  have hp : k ≤ c.posHist.headD c.pos ∧ c.posHist.headD c.pos ≤ inp.size := by
    cases hh : c.posHist with
    | nil => exact ⟨h.lo, h.hi⟩
    | cons x xs => exact h.hist x (by rw [hh]; exact List.mem_cons_self ..)
  exact ⟨hp.1, hp.2, fun p hp' => h.hist p (List.mem_of_mem_tail hp'), h.fp⟩

def boundedKit (g : Grammar) (inp : Input) (k : Nat) : Kit g inp where
  I := Bounded inp k
  N := fun _ => True
  core := fun h cc => ⟨by rw [cc.pos]; exact h.lo, by rw [cc.pos]; exact h.hi,
    by rw [cc.ph]; exact h.hist, by rw [cc.fp]; exact h.fp⟩
  setPos := fun _ h hq => ⟨Nat.le_trans h.lo (hq h.hi).1, (hq h.hi).2, h.hist, h.fp⟩
  checkpoint := fun {c} h => ⟨h.lo, h.hi, by
    intro p hp
    simp only [PState.checkpoint, List.mem_cons] at hp
    rcases hp with rfl | hp
    · exact ⟨h.lo, h.hi⟩
    · exact h.hist p hp, h.fp⟩
  ok := fun h => ⟨h.lo, h.hi, fun p hp => h.hist p (List.mem_of_mem_tail hp), h.fp⟩
  restore := bounded_restore
  push := fun _ h _ => ⟨h.lo, h.hi, h.hist, h.fp⟩
  pop := fun h _ => ⟨h.lo, h.hi, h.hist, h.fp⟩
  fail := fun h _ hf => bounded_fail h hf
  rule := fun _ _ => ⟨trivial, fun _ _ => trivial⟩

theorem namesOK_true (e : Expr) : namesOK (fun _ => True) e := fun _ _ => trivial

/-- **every finished call of the interpreter model keeps all positions in range** -/
theorem run_bounded (g : Grammar) (inp : Input) (k n : Nat) (e : Expr) (c c' : PState) (m : Bool)
    (ps : List Pair) (hb : Bounded inp k c) (h : L1.run g inp n e c = .done m c' ps) :
    Bounded inp k c' :=
  (run_pk (boundedKit g inp k) n e c m c' ps (namesOK_true e) hb h).1

theorem ruleParse_bounded (g : Grammar) (inp : Input) (k n : Nat) (name : String) (mod : Nat)
    (body : Expr) (c c' : PState) (m : Bool) (ps : List Pair) (hb : Bounded inp k c)
    (h : L1.ruleParse (L1.run g inp n) name mod body c = .done m c' ps) : Bounded inp k c' :=
  ruleParse_inv (boundedKit g inp k) (run_pk _ n) trivial (namesOK_true body) hb h

/-! ### instance 2: failure names are names of the grammar -/

/-- the names a failure record may mention: the rules of the table and the rule objects
    embedded in their trees (built-ins) -/
def knownNames (g : Grammar) : List String :=
  g.rules.map (·.name) ++ g.rules.flatMap (fun r => embNames r.body)

/-- every rule object embedded in `e` is one the grammar knows -/
def namesIn (g : Grammar) (e : Expr) : Prop := namesOK (· ∈ knownNames g) e

instance (g : Grammar) (e : Expr) : Decidable (namesIn g e) := by
  unfold namesIn namesOK; infer_instance

theorem rule_name_known {g : Grammar} {r : Rule} (h : r ∈ g.rules) : r.name ∈ knownNames g :=
  List.mem_append_left _ (List.mem_map.mpr ⟨r, h, rfl⟩)

theorem rule_body_namesIn {g : Grammar} {r : Rule} (h : r ∈ g.rules) : namesIn g r.body :=
  fun _ hn => List.mem_append_right _ (List.mem_flatMap.mpr ⟨r, h, hn⟩)

/-- both lists of a delta-encoded stack contain only `P`-elements -/
structure DAll {α : Type} (P : α → Prop) (d : DStack α) : Prop where
  items : ∀ x ∈ d.items, P x
  popped : ∀ x ∈ d.popped, P x

namespace DAll
variable {α : Type} {P : α → Prop} {d : DStack α}

theorem snapshot (h : DAll P d) : DAll P d.snapshot := ⟨h.items, h.popped⟩

theorem push (h : DAll P d) {x : α} (hx : P x) : DAll P (d.push x) :=
  ⟨by intro y hy; simp only [DStack.push, List.mem_cons] at hy
      rcases hy with rfl | hy
      · exact hx
      · exact h.items y hy, h.popped⟩

theorem pop (h : DAll P d) {x : α} {d' : DStack α} (hp : d.pop = some (x, d')) : DAll P d' := by
  rcases d with ⟨items, popped, lengths⟩
  cases items with
  | nil => simp [DStack.pop] at hp
  | cons y rest =>
    have hy : P y := h.items y (List.mem_cons_self ..)
    have hrest : ∀ z ∈ rest, P z := fun z hz => h.items z (List.mem_cons_of_mem _ hz)
    cases lengths with
    | nil =>
      simp only [DStack.pop, Option.some.injEq, Prod.mk.injEq] at hp
      obtain ⟨_, rfl⟩ := hp
      exact ⟨hrest, h.popped⟩
    | cons q ls =>
      obtain ⟨ic, rc⟩ := q
      by_cases hq : rest.length + 1 = rc
      · simp only [DStack.pop, List.length_cons, hq, ↓reduceIte, Option.some.injEq, Prod.mk.injEq] at hp
        obtain ⟨_, rfl⟩ := hp
        refine ⟨hrest, ?_⟩
        intro z hz
        simp only [List.mem_cons] at hz
        rcases hz with rfl | hz
        · exact hy
        · exact h.popped z hz
      · simp only [DStack.pop, List.length_cons, hq, ↓reduceIte, Option.some.injEq, Prod.mk.injEq] at hp
        obtain ⟨_, rfl⟩ := hp
        exact ⟨hrest, h.popped⟩

theorem restore (h : DAll P d) : DAll P d.restore := by
  unfold DStack.restore
  cases hl : d.lengths with
  | nil => exact ⟨by intro x hx; simp at hx, h.popped⟩
  | cons q ls =>
    obtain ⟨ic, rc⟩ := q
    simp only []
    refine ⟨?_, fun x hx => h.popped x (List.mem_of_mem_drop hx)⟩
    intro x hx
    rcases List.mem_append.mp hx with hx | hx
    · exact h.popped x (List.mem_of_mem_take (List.mem_reverse.mp hx))
    · exact h.items x (List.mem_of_mem_drop hx)

theorem dropSnap (h : DAll P d) : DAll P d.dropSnap := by
  unfold DStack.dropSnap
  cases hl : d.lengths with
  | nil => exact h
  | cons q ls =>
    obtain ⟨ic, rc⟩ := q
    simp only []
    cases ls with
    | nil => exact ⟨h.items, fun x hx => h.popped x (List.mem_of_mem_drop hx)⟩
    | cons q' ls' =>
      obtain ⟨oc, orc⟩ := q'
      simp only []
      split
      · refine ⟨h.items, ?_⟩
        intro x hx
        rcases List.mem_append.mp hx with hx | hx
        · exact h.popped x (List.mem_of_mem_take (List.mem_of_mem_take hx))
        · exact h.popped x (List.mem_of_mem_drop hx)
      · exact ⟨h.items, fun x hx => h.popped x (List.mem_of_mem_drop hx)⟩

end DAll

structure Known (g : Grammar) (c : PState) : Prop where
  rs : DAll (· ∈ knownNames g) c.rstack
  fexp : ∀ p ∈ c.fexp, p.1 ∈ knownNames g
  funexp : ∀ p ∈ c.funexp, p.1 ∈ knownNames g
  fstack : ∀ n ∈ c.fstack, n ∈ knownNames g

theorem known_init (g : Grammar) (k : Nat) : Known g (PState.init k) :=
  ⟨⟨by intro x hx; simp [PState.init, DStack.empty] at hx, by intro x hx; simp [PState.init, DStack.empty] at hx⟩,
   by intro x hx; simp [PState.init] at hx, by intro x hx; simp [PState.init] at hx,
   by intro x hx; simp [PState.init] at hx⟩

/-- `addLabel` keeps the keys it has or adds the given one -/
theorem mem_addLabel {P : String → Prop} {n : String} (hn : P n) :
    ∀ {l : List (String × Nat)}, (∀ p ∈ l, P p.1) → ∀ p ∈ PState.addLabel l n, P p.1
  | [], _, p, hp => by
    simp only [PState.addLabel, List.mem_singleton] at hp; subst hp; exact hn
  | (k', cnt) :: r, hl, p, hp => by
    simp only [PState.addLabel] at hp
    have hhead : P k' := hl (k', cnt) (List.mem_cons_self ..)
    have htail : ∀ p ∈ r, P p.1 := fun p hp => hl p (List.mem_cons_of_mem _ hp)
    by_cases hk : k' = n
    · simp only [hk, ↓reduceIte, List.mem_cons] at hp
      rcases hp with rfl | hp
      · exact hn
      · exact htail p hp
    · simp only [hk, ↓reduceIte, List.mem_cons] at hp
      rcases hp with rfl | hp
      · exact hhead
      · exact mem_addLabel hn htail p hp

theorem known_failRecord {g : Grammar} {c : PState} (h : Known g c) {name : String}
    (hn : name ∈ knownNames g) (p : Nat) : Known g (c.failRecord name p) := by
  have hone : ∀ q ∈ [(name, 1)], q.1 ∈ knownNames g := by
    intro q hq; rw [List.mem_singleton.mp hq]; exact hn
  have hnil : ∀ q ∈ ([] : List (String × Nat)), q.1 ∈ knownNames g := by intro q hq; cases hq
  unfold PState.failRecord
  simp only []
  by_cases h1 : (p : Int) > c.fpos
  · rw [if_pos h1]
    refine ⟨h.rs, ?_, ?_, fun n hn' => h.rs.items n (List.mem_reverse.mp hn')⟩
    · by_cases h3 : (c.negDepth % 2 == 1) = true
      · simp only [h3, ↓reduceIte]; exact hnil
      · simp only [h3, Bool.false_eq_true, ↓reduceIte]; exact hone
    · by_cases h3 : (c.negDepth % 2 == 1) = true
      · simp only [h3, ↓reduceIte]; exact hone
      · simp only [h3, Bool.false_eq_true, ↓reduceIte]; exact hnil
  · rw [if_neg h1]
    by_cases h2 : (p : Int) = c.fpos
    · rw [if_pos h2]
      by_cases h3 : (c.negDepth % 2 == 1) = true
      · rw [if_pos h3]; exact ⟨h.rs, h.fexp, mem_addLabel hn h.funexp, h.fstack⟩
      · rw [if_neg h3]; exact ⟨h.rs, mem_addLabel hn h.fexp, h.funexp, h.fstack⟩
    · rw [if_neg h2]; exact h

theorem known_fail {g : Grammar} {c c' : PState} {rn : Option String} {force : Bool} (h : Known g c)
    (hrn : ∀ n, rn = some n → n ∈ knownNames g) (hf : c.fail rn force = some c') : Known g c' := by
  unfold PState.fail at hf
  by_cases hs : ((c.negDepth > 0 && !force) || c.suppress) = true
  · simp only [hs, ↓reduceIte, Option.some.injEq] at hf; subst hf; exact h
  · simp only [hs] at hf
    cases hn : c.failName rn with
    | none => simp [hn] at hf
    | some nm =>
      simp [hn] at hf
      subst hf
      refine known_failRecord h ?_ _
      have hhead : ∀ x, c.rstack.items.head? = some x → x ∈ knownNames g :=
        fun x hx => h.rs.items x (List.mem_of_mem_head? hx)
      unfold PState.failName at hn
      cases rn with
      | none => exact hhead nm hn
      | some n =>
        simp only [] at hn
        by_cases he : n.isEmpty = true
        · simp only [he, ↓reduceIte] at hn; exact hhead nm hn
        · simp only [he, Bool.false_eq_true, ↓reduceIte, Option.some.injEq] at hn
          subst hn; exact hrn n rfl

def knownKit (g : Grammar) (inp : Input) : Kit g inp where
  I := Known g
  N := (· ∈ knownNames g)
  core := fun h cc => ⟨by rw [cc.rs]; exact h.rs, by rw [cc.fe]; exact h.fexp,
    by rw [cc.fu]; exact h.funexp, by rw [cc.fs]; exact h.fstack⟩
  setPos := fun _ h _ => ⟨h.rs, h.fexp, h.funexp, h.fstack⟩
  checkpoint := fun h => ⟨h.rs.snapshot, h.fexp, h.funexp, h.fstack⟩
  ok := fun h => ⟨h.rs.dropSnap, h.fexp, h.funexp, h.fstack⟩
  restore := fun h => ⟨h.rs.restore, h.fexp, h.funexp, h.fstack⟩
  push := fun _ h hn => ⟨h.rs.push hn, h.fexp, h.funexp, h.fstack⟩
  pop := fun h hp => ⟨h.rs.pop hp, h.fexp, h.funexp, h.fstack⟩
  fail := fun h hrn hf => known_fail h hrn hf
  rule := fun _ hr => ⟨rule_name_known hr, rule_body_namesIn hr⟩

/-- **every finished call of the interpreter model on a tree of the grammar keeps the rule
    stack and the failure record inside the grammar's names** -/
theorem run_known (g : Grammar) (inp : Input) (n : Nat) (e : Expr) (c c' : PState) (m : Bool)
    (ps : List Pair) (hE : namesIn g e) (hk : Known g c) (h : L1.run g inp n e c = .done m c' ps) :
    Known g c' :=
  (run_pk (knownKit g inp) n e c m c' ps hE hk h).1

theorem ruleParse_known (g : Grammar) (inp : Input) (n : Nat) (r : Rule) (hr : r ∈ g.rules)
    (c c' : PState) (m : Bool) (ps : List Pair) (hk : Known g c)
    (h : L1.ruleParse (L1.run g inp n) r.name r.mod r.body c = .done m c' ps) : Known g c' :=
  ruleParse_inv (knownKit g inp) (run_pk _ n) (rule_name_known hr) (rule_body_namesIn hr) hk h

/-! ### LG: every template preserves the invariant -/

section genericG
variable {g : Grammar} {inp : Input} (K : Kit g inp)

def PKG (rec : SemG) : Prop :=
  ∀ e c ps0 m c' ps, namesOK K.N e → K.I c → rec e c ps0 = .done m c' ps →
    K.I c' ∧ (∀ n t, e = .ident n t → (g.lookup n).isSome = true)

theorem failTG_inv {c c' : PState} {m : Bool} {ps0 ps : List Pair} (hI : K.I c)
    (h : LG.failT c ps0 = .done m c' ps) : K.I c' := by
  unfold LG.failT at h
  cases hf : c.fail none false with
  | none => rw [hf] at h; cases h
  | some c1 =>
    rw [hf] at h
    simp only [RG.done.injEq] at h
    obtain ⟨_, rfl, _⟩ := h
    exact K.fail hI (by intro n hn; cases hn) hf

theorem ruleExitG_inv {name : String} {mod start : Nat} {matched m : Bool} {c2 c' : PState}
    {children ps0 ps : List Pair} (hI : K.I c2)
    (h : LG.ruleExitG name mod start matched c2 children ps0 = .done m c' ps) : K.I c' := by
  unfold LG.ruleExitG at h
  generalize hc3 : (if L1.ruleScoped name mod then ({ c2 with adepth := c2.adepth.restore } : PState) else c2) = c3 at h
  have h3 : K.I c3 := by
    subst hc3
    split
    · exact K.core hI ⟨rfl, rfl, rfl, rfl, rfl, rfl, rfl⟩
    · exact hI
  simp only [] at h
  cases hp : c3.rstack.pop with
  | none => simp only [hp] at h; cases h
  | some q =>
    obtain ⟨x, rs⟩ := q
    simp only [hp] at h
    have h4 := K.pop h3 hp
    cases matched with
    | false =>
      simp only [Bool.not_false, ↓reduceIte, RG.done.injEq] at h
      obtain ⟨_, rfl, _⟩ := h; exact h4
    | true =>
      simp only [Bool.not_true, Bool.false_eq_true, ↓reduceIte] at h
      by_cases hS : hasBit mod SILENT = true
      · simp only [hS, ↓reduceIte, RG.done.injEq] at h
        obtain ⟨_, rfl, _⟩ := h; exact h4
      · simp only [hS, Bool.false_eq_true, ↓reduceIte] at h
        cases ht : c3.tagStack with
        | nil =>
          simp only [ht, RG.done.injEq] at h
          obtain ⟨_, rfl, _⟩ := h
          exact K.core h4 ⟨rfl, rfl, rfl, rfl, rfl, rfl, rfl⟩
        | cons t ts =>
          simp only [ht, RG.done.injEq] at h
          obtain ⟨_, rfl, _⟩ := h
          exact K.core h4 ⟨rfl, rfl, rfl, rfl, rfl, rfl, rfl⟩

theorem ruleG_inv {rec : SemG} (hr : PKG K rec) {name : String} {mod : Nat} {body : Expr}
    {c c' : PState} {m : Bool} {ps0 ps : List Pair} (hN : K.N name) (hE : namesOK K.N body)
    (hI : K.I c) (h : LG.ruleG rec name mod body c ps0 = .done m c' ps) : K.I c' := by
  unfold LG.ruleG at h
  have hen : K.I (L1.ruleEnter name mod { c with rstack := c.rstack.push name }) :=
    K.core (K.push name hI hN) (ruleEnter_core _ _ _)
  revert h
  generalize L1.ruleEnter name mod { c with rstack := c.rstack.push name } = en at hen
  cases hb : rec body en [] with
  | oof => intro h; cases h
  | exc k => intro h; cases h
  | done m2 c2 ch =>
    intro h
    simp only [] at h
    exact ruleExitG_inv K (hr body en [] m2 c2 ch hE hen hb).1 h

theorem callRuleG_inv {rec : SemG} (hr : PKG K rec) {name : String} {c c' : PState} {m : Bool}
    {ps0 ps : List Pair} (hI : K.I c) (h : LG.callRuleG g rec name c ps0 = .done m c' ps) :
    K.I c' ∧ (g.lookup name).isSome = true := by
  unfold LG.callRuleG at h
  cases hl : g.lookup name with
  | none => rw [hl] at h; cases h
  | some r =>
    rw [hl] at h
    simp only [] at h
    have hk := K.rule r (lookup_mem_name hl).1
    split at h
    · cases h
    · exact ⟨ruleG_inv K hr hk.1 hk.2 hI h, rfl⟩

theorem withTagG_done {tag : Option String} {c c' : PState} {body : PState → RG} {m : Bool}
    {ps : List Pair} (h : LG.withTagG tag c body = .done m c' ps) :
    ∃ d m2 c2 ps2, Core c d ∧ body d = .done m2 c2 ps2 ∧ Core c2 c' := by
  unfold LG.withTagG at h
  cases tag with
  | none => exact ⟨c, m, c', ps, Core.refl c, h, Core.refl c'⟩
  | some t =>
    simp only [] at h
    revert h
    cases hb : body { c with tagStack := t :: c.tagStack } with
    | oof => intro h; cases h
    | exc k => intro h; cases h
    | done m2 c2 ps2 =>
      intro h
      simp only [RG.done.injEq] at h
      obtain ⟨_, rfl, _⟩ := h
      exact ⟨{ c with tagStack := t :: c.tagStack }, m2, c2, ps2, ⟨rfl, rfl, rfl, rfl, rfl, rfl, rfl⟩, hb,
        ⟨rfl, rfl, rfl, rfl, rfl, rfl, rfl⟩⟩

def TryGI : LG.TryG → Prop
  | .matched c _ => K.I c
  | .no c _ => K.I c
  | .stop r => ∀ m c' ps, r = .done m c' ps → K.I c'

theorem tryTriviaG_inv {rec : SemG} (hr : PKG K rec) (on : Bool) (name : String) {c : PState}
    (ps0 : List Pair) (hI : K.I c) : TryGI K (LG.tryTriviaG g rec on name c ps0) := by
  unfold LG.tryTriviaG
  by_cases hon : on = true
  · simp only [hon, Bool.not_true, Bool.false_eq_true, ↓reduceIte]
    cases hb : LG.callRuleG g rec name c.checkpoint ps0 with
    | oof => intro _ _ _ h; cases h
    | exc k => intro _ _ _ h; cases h
    | done m c1 ps =>
      have := (callRuleG_inv K hr (K.checkpoint hI) hb).1
      cases m with
      | true => exact K.ok this
      | false => exact K.restore this
  · simp only [hon, Bool.not_false, ↓reduceIte]
    exact hI

theorem triviaLoopG_inv {rec : SemG} (hr : PKG K rec) (hasWs hasCm : Bool) :
    ∀ (k : Nat) (c : PState) (ps0 : List Pair) (m : Bool) (c' : PState) (ps : List Pair), K.I c →
      LG.triviaLoopG g rec hasWs hasCm k c ps0 = .done m c' ps → K.I c' := by
  intro k
  induction k with
  | zero => intro c ps0 m c' ps _ h; simp [LG.triviaLoopG] at h
  | succ k ih =>
    intro c ps0 m c' ps hI h
    simp only [LG.triviaLoopG] at h
    have h1 := tryTriviaG_inv K hr hasWs "WHITESPACE" ps0 hI
    revert h h1
    cases LG.tryTriviaG g rec hasWs "WHITESPACE" c ps0 with
    | matched c1 ps1 => intro h h1; exact ih _ _ _ _ _ h1 h
    | stop r => intro h h1; exact h1 _ _ _ h
    | no c1 ps1 =>
      intro h h1
      simp only [] at h
      have h2 := tryTriviaG_inv K hr hasCm "COMMENT" (c := c1) ps1 h1
      revert h h2
      cases LG.tryTriviaG g rec hasCm "COMMENT" c1 ps1 with
      | matched c2 ps2 => intro h h2; exact ih _ _ _ _ _ h2 h
      | stop r => intro h h2; exact h2 _ _ _ h
      | no c2 ps2 =>
        intro h h2
        simp only [RG.done.injEq] at h
        obtain ⟨_, rfl, _⟩ := h; exact h2

theorem parseTriviaG_inv {rec : SemG} (hr : PKG K rec) (k : Nat) {c c' : PState} {m : Bool}
    {ps0 ps : List Pair} (hI : K.I c) (h : LG.parseTriviaG g rec k c ps0 = .done m c' ps) : K.I c' := by
  unfold LG.parseTriviaG at h
  simp only [] at h
  split at h
  · simp only [RG.done.injEq] at h; obtain ⟨_, rfl, _⟩ := h; exact hI
  · split at h
    · simp only [RG.done.injEq] at h; obtain ⟨_, rfl, _⟩ := h; exact hI
    · split at h
      · exact (callRuleG_inv K hr hI h).1
      · have hs : K.I { c with suppress := true } := K.core hI ⟨rfl, rfl, rfl, rfl, rfl, rfl, rfl⟩
        revert h
        cases hl : LG.triviaLoopG g rec (g.defines "WHITESPACE") (g.defines "COMMENT") k
            { c with suppress := true } ps0 with
        | oof => intro h; cases h
        | exc kx => intro h; cases h
        | done m2 c2 ps2 =>
          intro h
          simp only [RG.done.injEq] at h
          obtain ⟨_, rfl, _⟩ := h
          have := triviaLoopG_inv K hr _ _ k _ _ _ _ _ hs hl
          exact K.core this ⟨rfl, rfl, rfl, rfl, rfl, rfl, rfl⟩

theorem seqG_inv {rec : SemG} (hr : PKG K rec) (k : Nat) :
    ∀ (es : List Expr) (c : PState) (ps0 : List Pair) (m : Bool) (c' : PState) (ps : List Pair),
      (∀ e ∈ es, namesOK K.N e) → K.I c → LG.seqG g rec k es c ps0 = .done m c' ps → K.I c' := by
  intro es
  induction es with
  | nil =>
    intro c ps0 m c' ps _ hI h
    simp only [LG.seqG, RG.done.injEq] at h
    obtain ⟨_, rfl, _⟩ := h; exact hI
  | cons e rest ih =>
    intro c ps0 m c' ps hE hI h
    simp only [LG.seqG] at h
    revert h
    cases hb : rec e c ps0 with
    | oof => intro h; cases h
    | exc kx => intro h; cases h
    | done m1 c1 ps1 =>
      have h1 := (hr e c ps0 m1 c1 ps1 (hE e (List.mem_cons_self ..)) hI hb).1
      cases m1 with
      | false =>
        intro h
        simp only [RG.done.injEq] at h
        obtain ⟨_, rfl, _⟩ := h; exact h1
      | true =>
        intro h
        simp only [] at h
        by_cases hre : rest.isEmpty = true
        · simp only [hre, ↓reduceIte, RG.done.injEq] at h
          obtain ⟨_, rfl, _⟩ := h; exact h1
        · simp only [hre, Bool.false_eq_true, ↓reduceIte] at h
          revert h
          cases ht : LG.parseTriviaG g rec k c1 ps1 with
          | oof => intro h; cases h
          | exc kx => intro h; cases h
          | done m2 c2 tps =>
            intro h
            simp only [] at h
            exact ih c2 _ m c' ps (fun x hx => hE x (List.mem_cons_of_mem _ hx))
              (parseTriviaG_inv K hr k h1 ht) h

theorem choiceG_inv {rec : SemG} (hr : PKG K rec) :
    ∀ (es : List Expr) (c : PState) (ps0 : List Pair) (m : Bool) (c' : PState) (ps : List Pair),
      (∀ e ∈ es, namesOK K.N e) → K.I c → LG.choiceG rec es c ps0 = .done m c' ps → K.I c' := by
  intro es
  induction es with
  | nil =>
    intro c ps0 m c' ps _ hI h
    simp only [LG.choiceG, RG.done.injEq] at h
    obtain ⟨_, rfl, _⟩ := h; exact hI
  | cons e rest ih =>
    intro c ps0 m c' ps hE hI h
    simp only [LG.choiceG] at h
    revert h
    cases hb : rec e c.checkpoint [] with
    | oof => intro h; cases h
    | exc kx => intro h; cases h
    | done m1 c1 ps1 =>
      have h1 := (hr e _ _ m1 c1 ps1 (hE e (List.mem_cons_self ..)) (K.checkpoint hI) hb).1
      cases m1 with
      | true =>
        intro h
        simp only [RG.done.injEq] at h
        obtain ⟨_, rfl, _⟩ := h; exact K.ok h1
      | false =>
        intro h
        simp only [] at h
        exact ih _ _ m c' ps (fun x hx => hE x (List.mem_cons_of_mem _ hx)) (K.restore h1) h

theorem repLoopG_inv {rec : SemG} (hr : PKG K rec) (e : Expr) (hE : namesOK K.N e) (kk : Nat) :
    ∀ (k : Nat) (first : Bool) (c : PState) (ps0 : List Pair) (m : Bool) (c' : PState) (ps : List Pair),
      K.I c → LG.repLoopG g rec e k kk first c ps0 = .done m c' ps → K.I c' := by
  intro k
  induction k with
  | zero => intro first c ps0 m c' ps _ h; simp [LG.repLoopG] at h
  | succ k ih =>
    intro first c ps0 m c' ps hI h
    simp only [LG.repLoopG] at h
    have hT : ∀ m1 c1 tps, (if first = true then RG.done true c.checkpoint [] else
        LG.parseTriviaG g rec kk c.checkpoint []) = .done m1 c1 tps → K.I c1 := by
      intro m1 c1 tps ht
      by_cases hf : first = true
      · simp only [hf, ↓reduceIte, RG.done.injEq] at ht
        obtain ⟨_, rfl, _⟩ := ht; exact K.checkpoint hI
      · simp only [hf, Bool.false_eq_true, ↓reduceIte] at ht
        exact parseTriviaG_inv K hr kk (K.checkpoint hI) ht
    revert h hT
    cases (if first = true then RG.done true c.checkpoint [] else LG.parseTriviaG g rec kk c.checkpoint []) with
    | oof => intro h _; cases h
    | exc kx => intro h _; cases h
    | done m1 c1 tps =>
      intro h hT
      have h1 := hT m1 c1 tps rfl
      simp only [] at h
      revert h
      cases hb : rec e c1 tps with
      | oof => intro h; cases h
      | exc kx => intro h; cases h
      | done m2 c2 ps2 =>
        have h2 := (hr e c1 tps m2 c2 ps2 hE h1 hb).1
        cases m2 with
        | true => intro h; simp only [] at h; exact ih false _ _ m c' ps (K.ok h2) h
        | false =>
          intro h
          simp only [RG.done.injEq] at h
          obtain ⟨_, rfl, _⟩ := h; exact K.restore h2

theorem stepG_pk (k : Nat) {rec : SemG} (hr : PKG K rec) : PKG K (LG.step g inp k rec) := by
  intro e c ps0 m c' ps hE hI h
  refine ⟨?_, ?_⟩
  · cases e with
    | str s =>
      simp only [LG.step] at h
      by_cases hm : startsWithAt inp s c.pos = true
      · simp only [hm, ↓reduceIte, RG.done.injEq] at h
        obtain ⟨_, rfl, _⟩ := h
        exact adv_inv K hI _ (startsWithAt_le inp s c.pos hm)
      · simp only [hm, Bool.false_eq_true, ↓reduceIte] at h; exact failTG_inv K hI h
    | ci s =>
      simp only [LG.step] at h
      by_cases hm : startsWithAtCI inp s c.pos = true
      · simp only [hm, ↓reduceIte, RG.done.injEq] at h
        obtain ⟨_, rfl, _⟩ := h
        exact adv_inv K hI _ (startsWithAtCI_le inp s c.pos hm)
      · simp only [hm, Bool.false_eq_true, ↓reduceIte] at h; exact failTG_inv K hI h
    | range a b =>
      simp only [LG.step] at h
      cases hx : inp[c.pos]? with
      | none => simp only [hx] at h; exact failTG_inv K hI h
      | some x =>
        simp only [hx] at h
        have hlt := getElem?_lt inp hx
        by_cases hm : L1.inRange a b x = true
        · simp only [hm, ↓reduceIte, RG.done.injEq] at h
          obtain ⟨_, rfl, _⟩ := h
          exact adv_inv K hI 1 hlt
        · simp only [hm, Bool.false_eq_true, ↓reduceIte] at h; exact failTG_inv K hI h
    | ident name tag =>
      simp only [LG.step] at h
      obtain ⟨d, m2, c2, ps2, cd, hb, cc⟩ := withTagG_done h
      exact K.core (callRuleG_inv K hr (K.core hI cd) hb).1 cc
    | rule name mod sm body =>
      simp only [LG.step] at h
      split at h
      · cases h
      · exact (hr body c ps0 m c' ps hE.rule.2 hI h).1
    | seq es => simp only [LG.step] at h; exact seqG_inv K hr k es c ps0 m c' ps hE.seq hI h
    | choice es => simp only [LG.step] at h; exact choiceG_inv K hr es c ps0 m c' ps hE.choice hI h
    | opt e =>
      simp only [LG.step] at h
      revert h
      cases hb : rec e c.checkpoint [] with
      | oof => intro h; cases h
      | exc kx => intro h; cases h
      | done m1 c1 ps1 =>
        have h1 := (hr e _ _ m1 c1 ps1 hE.opt (K.checkpoint hI) hb).1
        cases m1 with
        | true => intro h; simp only [RG.done.injEq] at h; obtain ⟨_, rfl, _⟩ := h; exact K.ok h1
        | false => intro h; simp only [RG.done.injEq] at h; obtain ⟨_, rfl, _⟩ := h; exact K.restore h1
    | rep e => simp only [LG.step] at h; exact repLoopG_inv K hr e hE.rep k k true c ps0 m c' ps hI h
    | rep1 e =>
      simp only [LG.step] at h
      refine seqG_inv K hr k _ c ps0 m c' ps ?_ hI h
      exact namesOK_append (namesOK_single hE.rep1) (namesOK_single hE.rep1.mk_rep)
    | repExact e n =>
      simp only [LG.step] at h
      exact seqG_inv K hr k _ c ps0 m c' ps (namesOK_replicate hE.repExact n) hI h
    | repMin e n =>
      simp only [LG.step] at h
      exact seqG_inv K hr k _ c ps0 m c' ps
        (namesOK_append (namesOK_replicate hE.repMin n) (namesOK_single hE.repMin.mk_rep)) hI h
    | repMax e n =>
      simp only [LG.step] at h
      exact seqG_inv K hr k _ c ps0 m c' ps (namesOK_replicate hE.repMax.mk_opt n) hI h
    | repMinMax e m1 n =>
      simp only [LG.step] at h
      exact seqG_inv K hr k _ c ps0 m c' ps
        (namesOK_append (namesOK_replicate hE.repMinMax m1) (namesOK_replicate hE.repMinMax.mk_opt _)) hI h
    | andP e =>
      simp only [LG.step] at h
      revert h
      cases hb : rec e c.checkpoint [] with
      | oof => intro h; cases h
      | exc kx => intro h; cases h
      | done m1 c1 ps1 =>
        have h1 := (hr e _ _ m1 c1 ps1 hE.andP (K.checkpoint hI) hb).1
        intro h; simp only [RG.done.injEq] at h; obtain ⟨_, rfl, _⟩ := h; exact K.restore h1
    | notP e =>
      simp only [LG.step] at h
      have hc0 : K.I { c.checkpoint with negDepth := c.checkpoint.negDepth + 1 } :=
        K.core (K.checkpoint hI) ⟨rfl, rfl, rfl, rfl, rfl, rfl, rfl⟩
      revert h
      cases hb : rec e { c.checkpoint with negDepth := c.checkpoint.negDepth + 1 } [] with
      | oof => intro h; cases h
      | exc kx => intro h; cases h
      | done matched c1 ps1 =>
        intro h
        simp only [] at h
        obtain ⟨h1, hid⟩ := hr e _ _ _ _ _ hE.notP hc0 hb
        have h2 := K.restore h1
        cases matched with
        | false =>
          simp only [Bool.false_eq_true, ↓reduceIte, RG.done.injEq] at h
          obtain ⟨_, rfl, _⟩ := h
          exact K.core h2 ⟨rfl, rfl, rfl, rfl, rfl, rfl, rfl⟩
        | true =>
          simp only [↓reduceIte] at h
          cases hf : c1.restore.fail (L1.failedName e) true with
          | none => rw [hf] at h; cases h
          | some c3 =>
            rw [hf] at h
            simp only [RG.done.injEq] at h
            obtain ⟨_, rfl, _⟩ := h
            exact K.core (K.fail h2 (failedName_ok K hE.notP hid) hf) ⟨rfl, rfl, rfl, rfl, rfl, rfl, rfl⟩
    | group e tag =>
      simp only [LG.step] at h
      obtain ⟨d, m2, c2, ps2, cd, hb, cc⟩ := withTagG_done h
      exact K.core (hr e d ps0 m2 c2 ps2 hE.group (K.core hI cd) hb).1 cc
    | push e =>
      simp only [LG.step] at h
      revert h
      cases hb : rec e c ps0 with
      | oof => intro h; cases h
      | exc kx => intro h; cases h
      | done m1 c1 ps1 =>
        have h1 := (hr e _ _ m1 c1 ps1 hE.push hI hb).1
        cases m1 with
        | true =>
          intro h; simp only [RG.done.injEq] at h; obtain ⟨_, rfl, _⟩ := h
          exact K.core h1 ⟨rfl, rfl, rfl, rfl, rfl, rfl, rfl⟩
        | false => intro h; simp only [RG.done.injEq] at h; obtain ⟨_, rfl, _⟩ := h; exact h1
    | pushLit s =>
      simp only [LG.step, RG.done.injEq] at h
      obtain ⟨_, rfl, _⟩ := h
      exact K.core hI ⟨rfl, rfl, rfl, rfl, rfl, rfl, rfl⟩
    | peekSlice a b =>
      simp only [LG.step, LG.matchAllG] at h
      cases hq : L1.matchAll inp (pySlice c.ustack.items.reverse a b) c.pos with
      | none => simp only [hq] at h; exact failTG_inv K hI h
      | some q =>
        simp only [hq, RG.done.injEq] at h
        obtain ⟨_, rfl, _⟩ := h
        have := matchAll_le inp _ _ _ hq
        exact K.setPos q hI (fun hp => ⟨this.1, this.2 hp⟩)
    | peek =>
      simp only [LG.step] at h
      cases hv : c.ustack.peek with
      | none => simp only [hv, RG.done.injEq] at h; obtain ⟨_, rfl, _⟩ := h; exact hI
      | some v =>
        simp only [hv] at h
        by_cases hm : startsWithAt inp v c.pos = true
        · simp only [hm, ↓reduceIte, RG.done.injEq] at h
          obtain ⟨_, rfl, _⟩ := h
          exact adv_inv K hI _ (startsWithAt_le inp v c.pos hm)
        · simp only [hm, Bool.false_eq_true, ↓reduceIte] at h; exact failTG_inv K hI h
    | peekAll =>
      simp only [LG.step, LG.matchAllG] at h
      cases hq : L1.matchAll inp c.ustack.items c.pos with
      | none => simp only [hq] at h; exact failTG_inv K hI h
      | some q =>
        simp only [hq, RG.done.injEq] at h
        obtain ⟨_, rfl, _⟩ := h
        have := matchAll_le inp _ _ _ hq
        exact K.setPos q hI (fun hp => ⟨this.1, this.2 hp⟩)
    | pop =>
      simp only [LG.step] at h
      cases hv : c.ustack.peek with
      | none => simp only [hv, RG.done.injEq] at h; obtain ⟨_, rfl, _⟩ := h; exact hI
      | some v =>
        simp only [hv] at h
        by_cases hm : startsWithAt inp v c.pos = true
        · simp only [hm, ↓reduceIte] at h
          cases hp : c.ustack.pop with
          | none => simp only [hp] at h; cases h
          | some q =>
            obtain ⟨x, us⟩ := q
            simp only [hp, RG.done.injEq] at h
            obtain ⟨_, rfl, _⟩ := h
            exact K.core (adv_inv K hI _ (startsWithAt_le inp v c.pos hm)) ⟨rfl, rfl, rfl, rfl, rfl, rfl, rfl⟩
        · simp only [hm, Bool.false_eq_true, ↓reduceIte] at h; exact failTG_inv K hI h
    | popAll =>
      simp only [LG.step, LG.matchAllG] at h
      cases hq : L1.matchAll inp c.ustack.items c.pos with
      | none => simp only [hq] at h; exact failTG_inv K hI h
      | some q =>
        simp only [hq, RG.done.injEq] at h
        obtain ⟨_, rfl, _⟩ := h
        have := matchAll_le inp _ _ _ hq
        exact K.core (K.setPos q hI (fun hp => ⟨this.1, this.2 hp⟩)) ⟨rfl, rfl, rfl, rfl, rfl, rfl, rfl⟩
    | drop =>
      simp only [LG.step] at h
      cases hp : c.ustack.pop with
      | none => simp only [hp] at h; exact failTG_inv K hI h
      | some q =>
        obtain ⟨x, us⟩ := q
        simp only [hp, RG.done.injEq] at h
        obtain ⟨_, rfl, _⟩ := h
        exact K.core hI ⟨rfl, rfl, rfl, rfl, rfl, rfl, rfl⟩
    | anyB =>
      simp only [LG.step] at h
      by_cases hm : c.pos < inp.size
      · simp only [hm, ↓reduceIte, RG.done.injEq] at h
        obtain ⟨_, rfl, _⟩ := h
        exact adv_inv K hI 1 hm
      · simp only [hm, ↓reduceIte, RG.done.injEq] at h; obtain ⟨_, rfl, _⟩ := h; exact hI
    | soiB => simp only [LG.step, RG.done.injEq] at h; obtain ⟨_, rfl, _⟩ := h; exact hI
    | eoiB => simp only [LG.step, RG.done.injEq] at h; obtain ⟨_, rfl, _⟩ := h; exact hI
    | uprop n =>
      simp only [LG.step] at h
      cases hx : inp[c.pos]? with
      | none => simp only [hx, RG.done.injEq] at h; obtain ⟨_, rfl, _⟩ := h; exact hI
      | some x =>
        simp only [hx] at h
        have hlt := getElem?_lt inp hx
        by_cases hm : g.uprop n x = true
        · simp only [hm, ↓reduceIte, RG.done.injEq] at h
          obtain ⟨_, rfl, _⟩ := h
          exact adv_inv K hI 1 hlt
        · simp only [hm, Bool.false_eq_true, ↓reduceIte, RG.done.injEq] at h
          obtain ⟨_, rfl, _⟩ := h; exact hI
    | skipUntil subs =>
      simp only [LG.step, RG.done.injEq] at h
      obtain ⟨_, rfl, _⟩ := h
      exact K.setPos _ hI (fun hp => skipUntilPos_le inp subs c.pos hp)
    | optChoice alts star =>
      simp only [LG.step] at h
      cases hq : L1.optMatch g inp alts star c.pos with
      | none => simp only [hq, RG.done.injEq] at h; obtain ⟨_, rfl, _⟩ := h; exact hI
      | some q =>
        simp only [hq, RG.done.injEq] at h
        obtain ⟨_, rfl, _⟩ := h
        have := optMatch_le inp g alts star c.pos q hq
        exact K.setPos q hI (fun hp => ⟨this.1, this.2 hp⟩)
  · intro n t he
    subst he
    simp only [LG.step] at h
    obtain ⟨d, m2, c2, ps2, cd, hb, _⟩ := withTagG_done h
    exact (callRuleG_inv K hr (K.core hI cd) hb).2

theorem runG_pk : ∀ n, PKG K (LG.run g inp n) := by
  intro n
  induction n with
  | zero => intro e c ps0 m c' ps _ _ h; simp [LG.run] at h
  | succ n ih => exact stepG_pk K n ih

end genericG

/-- **every finished call of the generated-code model keeps all positions in range** -/
theorem runG_bounded (g : Grammar) (inp : Input) (k n : Nat) (e : Expr) (c c' : PState) (m : Bool)
    (ps0 ps : List Pair) (hb : Bounded inp k c) (h : LG.run g inp n e c ps0 = .done m c' ps) :
    Bounded inp k c' :=
  (runG_pk (boundedKit g inp k) n e c ps0 m c' ps (namesOK_true e) hb h).1

theorem ruleG_bounded (g : Grammar) (inp : Input) (k n : Nat) (name : String) (mod : Nat)
    (body : Expr) (c c' : PState) (m : Bool) (ps0 ps : List Pair) (hb : Bounded inp k c)
    (h : LG.ruleG (LG.run g inp n) name mod body c ps0 = .done m c' ps) : Bounded inp k c' :=
  ruleG_inv (boundedKit g inp k) (runG_pk _ n) trivial (namesOK_true body) hb h

/-- **… and the rule stack and the failure record inside the grammar's names** -/
theorem runG_known (g : Grammar) (inp : Input) (n : Nat) (e : Expr) (c c' : PState) (m : Bool)
    (ps0 ps : List Pair) (hE : namesIn g e) (hk : Known g c)
    (h : LG.run g inp n e c ps0 = .done m c' ps) : Known g c' :=
  (runG_pk (knownKit g inp) n e c ps0 m c' ps hE hk h).1

theorem ruleG_known (g : Grammar) (inp : Input) (n : Nat) (r : Rule) (hr : r ∈ g.rules)
    (c c' : PState) (m : Bool) (ps0 ps : List Pair) (hk : Known g c)
    (h : LG.ruleG (LG.run g inp n) r.name r.mod r.body c ps0 = .done m c' ps) : Known g c' :=
  ruleG_inv (knownKit g inp) (runG_pk _ n) (rule_name_known hr) (rule_body_namesIn hr) hk h

end FailPos
end Pest
