/-
  Lemmas/OptSoundFusionWS.lean — the WHITESPACE case of `_optimize_skip_rule`:
  `SKIP = OptimizedChoiceRepeat(squash(WHITESPACE.expression))`.

  `(WHITESPACE)*` as `parse_trivia` runs it (one silent, atomic rule application per iteration)
  is the regex `(?:…)*` — provided no alternative matches the empty string (otherwise the
  un-optimized loop never ends while the regex stops: see the report).
-/
import PestModel.Lemmas.OptSoundMain
import PestModel.Lemmas.OptSoundSquash

set_option linter.unusedVariables false

namespace Pest
namespace OptS

open L0

variable (G : Grammar) (inp : Input)

/-! ### progress and bounds of one match -/

theorem altMatch_bounds {a : Alt} {pos p : Nat} (h : altMatch G inp a pos = some p)
    (hne : ∀ s ci, a = .lit s ci → s ≠ []) : pos < p ∧ p ≤ inp.size := by
  cases a with
  | lit s ci =>
    have hs := hne s ci rfl
    have hl : 0 < s.length := by cases s with
      | nil => exact absurd rfl hs
      | cons _ _ => simp
    cases ci with
    | false =>
      simp only [altMatch] at h
      split at h
      · rename_i hm
        simp only [Option.some.injEq] at h; subst h
        have := swa_size inp s pos hm
        omega
      · simp at h
    | true =>
      simp only [altMatch] at h
      split at h
      · rename_i hm
        simp only [Option.some.injEq] at h; subst h
        have := swaCI_size inp s pos hm
        omega
      · simp at h
  | range lo hi =>
    simp only [altMatch] at h
    cases hi' : inp[pos]? with
    | none => rw [hi'] at h; simp at h
    | some c =>
      rw [hi'] at h
      obtain ⟨hlt, _⟩ := Array.getElem?_eq_some_iff.1 hi'
      simp only [] at h
      split at h
      · simp only [Option.some.injEq] at h; omega
      · simp at h
  | uprop n =>
    simp only [altMatch] at h
    cases hi' : inp[pos]? with
    | none => rw [hi'] at h; simp at h
    | some c =>
      rw [hi'] at h
      obtain ⟨hlt, _⟩ := Array.getElem?_eq_some_iff.1 hi'
      simp only [] at h
      split at h
      · simp only [Option.some.injEq] at h; omega
      · simp at h

theorem firstMatch_bounds {alts : List Alt} (hne : ∀ s ci, Alt.lit s ci ∈ alts → s ≠ []) {pos p : Nat}
    (h : firstMatch G inp alts pos = some p) : pos < p ∧ p ≤ inp.size := by
  unfold firstMatch at h
  obtain ⟨a, ha, hm⟩ := List.exists_of_findSome?_eq_some h
  exact altMatch_bounds G inp hm (fun s ci e => hne s ci (e ▸ ha))

/-! ### the star -/

/-- the end position of `(?:…)*` from `pos` -/
def starPos (alts : List Alt) (pos : Nat) : Nat := L1.optMatchStar G inp alts (inp.size + 1 - pos) pos

theorem star_stable {alts : List Alt} (hpw : alts.Pairwise (fun a b => compat G a b = true))
    (hok : ∀ a ∈ alts, AltOK a) (hne : ∀ s ci, Alt.lit s ci ∈ alts → s ≠ []) :
    ∀ (d pos b : Nat), inp.size + 1 - pos ≤ d → inp.size + 1 - pos ≤ b →
      L1.optMatchStar G inp alts b pos = starPos G inp alts pos := by
  intro d
  induction d with
  | zero =>
    intro pos b hd hb
    have h0 : inp.size + 1 - pos = 0 := by omega
    unfold starPos
    rw [h0]
    cases b with
    | zero => rfl
    | succ b =>
      simp only [L1.optMatchStar, optMatchOnce_eq_first G inp hpw hok]
      cases hf : firstMatch G inp alts pos with
      | none => rfl
      | some p =>
        have := firstMatch_bounds G inp hne hf
        omega
  | succ d ih =>
    intro pos b hd hb
    by_cases h0 : inp.size + 1 - pos = 0
    · exact ih pos b (by omega) hb
    · unfold starPos
      obtain ⟨b', rfl⟩ : ∃ b', b = b' + 1 := ⟨b - 1, by omega⟩
      obtain ⟨c', hc'⟩ : ∃ c', inp.size + 1 - pos = c' + 1 := ⟨inp.size + 1 - pos - 1, by omega⟩
      rw [hc']
      simp only [L1.optMatchStar, optMatchOnce_eq_first G inp hpw hok]
      cases hf : firstMatch G inp alts pos with
      | none => rfl
      | some p =>
        have hb := firstMatch_bounds G inp hne hf
        simp only [hb.1, ↓reduceIte]
        rw [ih p b' (by omega) (by omega), ih p c' (by omega) (by omega)]

theorem starPos_none {alts : List Alt} (hpw : alts.Pairwise (fun a b => compat G a b = true))
    (hok : ∀ a ∈ alts, AltOK a) {pos : Nat} (hf : firstMatch G inp alts pos = none) :
    starPos G inp alts pos = pos := by
  unfold starPos
  cases inp.size + 1 - pos with
  | zero => rfl
  | succ b => simp only [L1.optMatchStar, optMatchOnce_eq_first G inp hpw hok, hf]

theorem starPos_some {alts : List Alt} (hpw : alts.Pairwise (fun a b => compat G a b = true))
    (hok : ∀ a ∈ alts, AltOK a) (hne : ∀ s ci, Alt.lit s ci ∈ alts → s ≠ []) {pos p : Nat}
    (hf : firstMatch G inp alts pos = some p) : starPos G inp alts pos = starPos G inp alts p := by
  have hb := firstMatch_bounds G inp hne hf
  unfold starPos
  obtain ⟨c', hc'⟩ : ∃ c', inp.size + 1 - pos = c' + 1 := ⟨inp.size + 1 - pos - 1, by omega⟩
  rw [hc']
  simp only [L1.optMatchStar, optMatchOnce_eq_first G inp hpw hok, hf, hb.1, ↓reduceIte]
  exact star_stable G inp hpw hok hne _ p c' (Nat.le_refl _) (by omega)

/-! ### the loop of `parse_trivia` over a silent `WHITESPACE` -/

section ws

variable {g : Grammar} {w : Rule} {alts : List Alt}

theorem ruleApply_trivia (hwn : L1.isTriviaName w.name = true) (hws : hasBit w.mod SILENT = true) (rec : Sem0)
    {st : S0} (hst : st.atomic = true) :
    ruleApply rec w.name w.mod w.body { st with atomic := false } = unAtomic (rec w.body st) := by
  unfold ruleApply
  have : ∀ b, ruleAtomic w.name w.mod b = true := by intro b; simp [ruleAtomic, hwn]
  simp only [this, S0.atomic_true_eta hst]
  cases rec w.body st with
  | ok s' ps => simp [ruleWrap, hws, unAtomic]
  | fail => rfl
  | oof => rfl
  | stuck => rfl

theorem trySkip_trivia (hwn : L1.isTriviaName w.name = true) (hws : hasBit w.mod SILENT = true) (rec : Sem0)
    {st : S0} (hst : st.atomic = true) :
    trySkip rec (some w) { st with atomic := false } =
      (match rec w.body st with
       | .ok s' ps => .matched { s' with atomic := false } ps
       | .fail => .no
       | r => .stop r) := by
  unfold trySkip
  simp only [ruleApply_trivia hwn hws rec hst]
  cases rec w.body st <;> rfl

/-- what the body of `WHITESPACE` answers, whatever the fuel (beyond the first few levels) -/
def BodyW (g : Grammar) (inp : Input) (w : Rule) (alts : List Alt) : Prop :=
  ∀ st : S0, Evt (fun n => run g inp n w.body st = resOf st (firstMatch g inp alts st.pos))

theorem loopW_fwd (hwn : L1.isTriviaName w.name = true) (hws : hasBit w.mod SILENT = true)
    (hbody : BodyW g inp w alts)
    (hpw : alts.Pairwise (fun a b => compat g a b = true)) (hok : ∀ a ∈ alts, AltOK a)
    (hne : ∀ s ci, Alt.lit s ci ∈ alts → s ≠ []) (n : Nat) :
    ∀ (k : Nat) (st : S0), st.atomic = true →
      skipLoop (run g inp n) (some w) none k { st with atomic := false } [] ≠ .oof →
      skipLoop (run g inp n) (some w) none k { st with atomic := false } []
        = .ok { st with atomic := false, pos := starPos g inp alts st.pos } [] := by
  intro k
  induction k with
  | zero => intro st _ h; exact absurd rfl h
  | succ k ih =>
    intro st hst hne'
    simp only [skipLoop, trySkip_trivia hwn hws _ hst] at hne' ⊢
    have h1 : run g inp n w.body st ≠ .oof := by intro x; rw [x] at hne'; exact hne' rfl
    obtain ⟨N, hN⟩ := hbody st
    have hr : run g inp n w.body st = resOf st (firstMatch g inp alts st.pos) := by
      rw [← hN (n + N) (by omega)]
      exact (run_mono g inp (by omega : n ≤ n + N) _ _ h1).symm
    rw [hr] at hne' ⊢
    cases hf : firstMatch g inp alts st.pos with
    | none =>
      simp only [resOf, trySkip]
      rw [starPos_none g inp hpw hok hf]
    | some p =>
      rw [hf] at hne'
      simp only [resOf, List.append_nil] at hne' ⊢
      rw [starPos_some g inp hpw hok hne hf]
      exact ih { st with pos := p } hst hne'

theorem loopW_bwd (hwn : L1.isTriviaName w.name = true) (hws : hasBit w.mod SILENT = true)
    (hbody : BodyW g inp w alts)
    (hpw : alts.Pairwise (fun a b => compat g a b = true)) (hok : ∀ a ∈ alts, AltOK a)
    (hne : ∀ s ci, Alt.lit s ci ∈ alts → s ≠ []) :
    ∀ (d : Nat) (st : S0), st.atomic = true → inp.size + 1 - st.pos ≤ d →
      Evt2 (fun n k => skipLoop (run g inp n) (some w) none k { st with atomic := false } []
        = .ok { st with atomic := false, pos := starPos g inp alts st.pos } []) := by
  have e0 : ∀ (rec : Sem0) (s : S0), trySkip rec none s = .no := fun _ _ => rfl
  intro d
  induction d with
  | zero =>
    intro st hst hd
    obtain ⟨N, hN⟩ := hbody st
    have hf : firstMatch g inp alts st.pos = none := by
      cases hf : firstMatch g inp alts st.pos with
      | none => rfl
      | some p => have := firstMatch_bounds g inp hne hf; omega
    refine ⟨N + 1, fun n k hn hk => ?_⟩
    obtain ⟨k', rfl⟩ : ∃ k', k = k' + 1 := ⟨k - 1, by omega⟩
    simp only [skipLoop, trySkip_trivia hwn hws _ hst, hN n (by omega), hf, resOf, e0]
    rw [starPos_none g inp hpw hok hf]
  | succ d ih =>
    intro st hst hd
    obtain ⟨N, hN⟩ := hbody st
    cases hf : firstMatch g inp alts st.pos with
    | none =>
      refine ⟨N + 1, fun n k hn hk => ?_⟩
      obtain ⟨k', rfl⟩ : ∃ k', k = k' + 1 := ⟨k - 1, by omega⟩
      simp only [skipLoop, trySkip_trivia hwn hws _ hst, hN n (by omega), hf, resOf, e0]
      rw [starPos_none g inp hpw hok hf]
    | some p =>
      have hb := firstMatch_bounds g inp hne hf
      obtain ⟨N2, hN2⟩ := ih { st with pos := p } hst (by simp only []; omega)
      refine ⟨N + N2 + 1, fun n k hn hk => ?_⟩
      obtain ⟨k', rfl⟩ : ∃ k', k = k' + 1 := ⟨k - 1, by omega⟩
      simp only [skipLoop, trySkip_trivia hwn hws _ hst, hN n (by omega), hf, resOf, List.append_nil]
      rw [starPos_some g inp hpw hok hne hf]
      exact hN2 n k' (by omega) (by omega)

theorem skip_fused_any {g0 : Grammar} {body : Expr} (hg0 : g0.fusedSkip = some (skipRule body))
    (rec : Sem0) (k : Nat) {st : S0} (hst : st.atomic = true) :
    skip g0 rec k { st with atomic := false } = unAtomic (rec body st) := by
  unfold skip
  simp only [Bool.false_eq_true, ↓reduceIte, hg0]
  unfold ruleApply
  have : ruleAtomic "SKIP" (SILENT + ATOMIC) false = true := by decide
  simp only [skipRule, this, S0.atomic_true_eta hst]
  cases rec body st with
  | ok s' ps =>
    have : hasBit (SILENT + ATOMIC) SILENT = true := by decide
    simp [ruleWrap, this, unAtomic]
  | fail => rfl
  | oof => rfl
  | stuck => rfl

theorem skip_ws_loop (hgf : g.fusedSkip = none) (hgw : g.lookup "WHITESPACE" = some w)
    (hgc : g.lookup "COMMENT" = none) (rec : Sem0) (k : Nat) (s : S0) (hs : s.atomic = false) :
    skip g rec k s = skipLoop rec (some w) none k s [] := by
  unfold skip
  simp [hs, hgf, hgw, hgc]

theorem optStar_run (g0 : Grammar) (hu : g0.usets = g.usets)
    (hpw : alts.Pairwise (fun a b => compat g a b = true)) (hok : ∀ a ∈ alts, AltOK a)
    (m : Nat) (st : S0) :
    run g0 inp (m + 1) (.optChoice alts true) st = .ok { st with pos := starPos g inp alts st.pos } [] := by
  show step g0 inp m (run g0 inp m) (.optChoice alts true) st = _
  simp only [step, L1.optMatch]
  by_cases he : alts.isEmpty = true
  · simp only [he, ↓reduceIte]
    have : alts = [] := by simpa using he
    subst this
    rw [starPos_none g inp hpw hok rfl]
  · simp only [he, Bool.false_eq_true, ↓reduceIte]
    rw [optMatchStar_congr g inp g0 hu]
    rfl

end ws

/-- **the WHITESPACE case of the fusion** -/
theorem fusionWS {g : Grammar} (hwf : WF g)
    (hprog : ∀ wr es alts, g.lookup "COMMENT" = none → g.lookup "WHITESPACE" = some wr →
      wr.body = .choice es → Opt.squash 1000 es [] = some alts → ∀ s ci, Alt.lit s ci ∈ alts → s ≠ []) :
    FusionWS g := by
  intro hns wr es alts hc hw hs hb hq ho
  have hwn : L1.isTriviaName wr.name = true := by
    rw [lookup_name hw]; decide
  have hnode : AllN (NodeOK (sigOf g)) (.choice es) := hb ▸ hwf.nodes wr (lookup_mem hw)
  have hall : AllNL SqOK es := AllNL.imp2 (fun y hy => SqOK_of_NodeOK y hy.root) es hnode.2
  have hpw := op_pairwise g ho
  have hok := squash_altOK 1000 es [] alts hq hall (fun a ha => by simp at ha)
  have hne := hprog wr es alts hc hw hb hq
  have hbody : ∀ inp, BodyW g inp wr alts := by
    intro inp st
    obtain ⟨new, h1, h2⟩ := squash_sem g inp 1000 es [] alts hq hall
    simp only [List.nil_append] at h1
    subst h1
    rw [hb]
    exact Evt.shift ((h2 hpw st).mono fun n hn => hn)
  have hg0 := fused_ext g (.optChoice alts true) hns
  constructor
  · intro inp n _ s hp hne'
    by_cases ha : s.atomic = true
    · rw [skip_atomic_id g _ n ha]
      exact ⟨0, fun m _ => skip_atomic_id _ _ _ ha⟩
    · have ha' : s.atomic = false := by simpa using ha
      have hst : ({ s with atomic := true } : S0).atomic = true := rfl
      have hs' : s = { ({ s with atomic := true } : S0) with atomic := false } := by cases s; simp_all
      rw [skip_ws_loop hwf.noFused hw hc _ n s ha'] at hne' ⊢
      rw [hs'] at hne' ⊢
      rw [loopW_fwd inp hwn hs (hbody inp) hpw hok hne n n _ hst hne']
      refine ⟨1, fun m hm => ?_⟩
      obtain ⟨m', rfl⟩ : ∃ x, m = x + 1 := ⟨m - 1, by omega⟩
      rw [skip_fused_any hg0 _ _ hst, optStar_run (g := g) inp (ext g (.optChoice alts true)) rfl hpw hok m' _]
      rfl
  · intro inp m _ s hp hne'
    by_cases ha : s.atomic = true
    · rw [skip_atomic_id _ _ m ha]
      exact ⟨0, fun n _ => skip_atomic_id g _ _ ha⟩
    · have ha' : s.atomic = false := by simpa using ha
      have hst : ({ s with atomic := true } : S0).atomic = true := rfl
      have hs' : s = { ({ s with atomic := true } : S0) with atomic := false } := by cases s; simp_all
      rw [hs', skip_fused_any hg0 _ _ hst] at hne' ⊢
      cases m with
      | zero => exact absurd rfl hne'
      | succ m' =>
        rw [optStar_run (g := g) inp (ext g (.optChoice alts true)) rfl hpw hok m' _]
        obtain ⟨N, hN⟩ := loopW_bwd inp hwn hs (hbody inp) hpw hok hne _ { s with atomic := true } hst
          (Nat.le_refl _)
        refine ⟨N, fun n hn => ?_⟩
        show skip g (run g inp n) n { ({ s with atomic := true } : S0) with atomic := false } = _
        rw [skip_ws_loop hwf.noFused hw hc _ n _ rfl]
        exact hN n n hn hn

end OptS
end Pest
