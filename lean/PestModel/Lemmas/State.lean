/-
  Lemmas/State.lean — `ParserState.checkpoint/ok/restore` act on position, user stack,
  rule stack and atomic depth in lock-step, like a stack of full copies (`RState`).
-/
import PestModel.State
import PestModel.Lemmas.Stack

namespace Pest
open DStack

def zip4 : List Nat → List (List Str) → List (List String) → List Int → List RSnap
  | p :: ps, u :: us, r :: rs, a :: as => ⟨p, u, r, a⟩ :: zip4 ps us rs as
  | _, _, _, _ => []

namespace PState

/-- abstraction of the four checkpointed components to full copies -/
def absP (c : PState) : RState :=
  ⟨⟨c.pos, c.ustack.items, c.rstack.items, c.adepth.val⟩,
   zip4 c.posHist (snapsOf c.ustack) (snapsOf c.rstack) c.adepth.snaps⟩

/-- the four components are snapshotted in lock-step and both stacks are well-formed -/
structure CkInv (c : PState) : Prop where
  u : Inv c.ustack
  r : Inv c.rstack
  lu : c.ustack.lengths.length = c.posHist.length
  lr : c.rstack.lengths.length = c.posHist.length
  la : c.adepth.snaps.length = c.posHist.length

theorem ckInv_init (k : Nat) : CkInv (init k) :=
  ⟨inv_empty, inv_empty, rfl, rfl, rfl⟩

end PState

namespace DStack
variable {α : Type}

theorem snapsAux_length (ls : List (Nat × Nat)) (i p : List α) : (snapsAux ls i p).length = ls.length := by
  induction ls generalizing i p with
  | nil => rfl
  | cons q ls ih => obtain ⟨ic, rc⟩ := q; simp [snapsAux, ih]

theorem snapsOf_length (d : DStack α) : (snapsOf d).length = d.lengths.length :=
  snapsAux_length _ _ _

theorem snapshot_lengths (d : DStack α) : d.snapshot.lengths.length = d.lengths.length + 1 := by
  simp [snapshot]

theorem push_lengths (d : DStack α) (x : α) : (d.push x).lengths = d.lengths := rfl
theorem push_items (d : DStack α) (x : α) : (d.push x).items = x :: d.items := rfl
theorem snapshot_items (d : DStack α) : d.snapshot.items = d.items := rfl

theorem pop_lengths_length (d : DStack α) (x : α) (d' : DStack α) (h : d.pop = some (x, d')) :
    d'.lengths.length = d.lengths.length := by
  rcases d with ⟨items, popped, lengths⟩
  cases items with
  | nil => simp [pop] at h
  | cons y rest =>
    cases lengths with
    | nil => simp only [pop, Option.some.injEq, Prod.mk.injEq] at h; obtain ⟨_, rfl⟩ := h; rfl
    | cons p ls =>
      obtain ⟨ic, rc⟩ := p
      by_cases hc : rest.length + 1 = rc
      · simp only [pop, List.length_cons, hc, ↓reduceIte, Option.some.injEq, Prod.mk.injEq] at h
        obtain ⟨_, rfl⟩ := h; rfl
      · simp only [pop, List.length_cons, hc, ↓reduceIte, Option.some.injEq, Prod.mk.injEq] at h
        obtain ⟨_, rfl⟩ := h; rfl

theorem clear_lengths_length (d : DStack α) : d.clear.lengths.length = d.lengths.length := by
  rcases d with ⟨items, popped, lengths⟩
  cases items with
  | nil => rfl
  | cons y rest =>
    cases lengths with
    | nil => rfl
    | cons p ls => obtain ⟨ic, rc⟩ := p; rfl

theorem restore_lengths_length (d : DStack α) : d.restore.lengths.length = d.lengths.length - 1 := by
  rw [restore_lengths]; simp

theorem snapsOf_snapshot (d : DStack α) : snapsOf d.snapshot = d.items :: snapsOf d := by
  have := abs_snapshot d
  simp only [abs, RStack.snapshot, RStack.mk.injEq] at this
  exact this.2

theorem snapsOf_dropSnap (d : DStack α) (h : Inv d) : snapsOf d.dropSnap = (snapsOf d).tail := by
  have := abs_dropSnap d h
  simp only [abs, RStack.dropSnap, RStack.mk.injEq] at this
  exact this.2

theorem snapsOf_push (d : DStack α) (x : α) (h : Inv d) : snapsOf (d.push x) = snapsOf d := by
  have := abs_push d x h
  simp only [abs, RStack.push, RStack.mk.injEq] at this
  exact this.2

theorem snapsOf_clear (d : DStack α) (h : Inv d) : snapsOf d.clear = snapsOf d ∧ d.clear.items = [] := by
  have := abs_clear d h
  simp only [abs, RStack.clear, RStack.mk.injEq] at this
  exact ⟨this.2, this.1⟩

theorem snapsOf_pop (d : DStack α) (h : Inv d) (x : α) (d' : DStack α) (hp : d.pop = some (x, d')) :
    snapsOf d' = snapsOf d ∧ d'.items = d.items.tail := by
  have := abs_pop d h
  rw [hp] at this
  simp only [Option.map_some, abs, RStack.pop] at this
  cases hi : d.items with
  | nil => rw [hi] at this; simp at this
  | cons y rest =>
    rw [hi] at this
    simp only [Option.some.injEq, Prod.mk.injEq, RStack.mk.injEq] at this
    exact ⟨this.2.2, by simp [this.2.1]⟩

theorem restore_items_snaps (d : DStack α) (hne : d.lengths ≠ []) :
    snapsOf d = d.restore.items :: snapsOf d.restore := snapsOf_cons d hne

end DStack

namespace PState

theorem ckInv_apply (c : PState) (op : StateOp) (h : CkInv c) : CkInv (c.applyOp op) := by
  obtain ⟨hu, hr, lu, lr, la⟩ := h
  cases op with
  | setPos p => exact ⟨hu, hr, lu, lr, la⟩
  | upush x => exact ⟨inv_push _ x hu, hr, lu, lr, la⟩
  | upop =>
    simp only [applyOp]
    cases hp : c.ustack.pop with
    | none => exact ⟨hu, hr, lu, lr, la⟩
    | some q =>
      exact ⟨inv_pop _ hu q.1 q.2 hp, hr, by simp [pop_lengths_length _ q.1 q.2 hp, lu], lr, la⟩
  | uclear => exact ⟨inv_clear _ hu, hr, by simp [applyOp, clear_lengths_length, lu], lr, la⟩
  | rpush x => exact ⟨hu, inv_push _ x hr, lu, lr, la⟩
  | rpop =>
    simp only [applyOp]
    cases hp : c.rstack.pop with
    | none => exact ⟨hu, hr, lu, lr, la⟩
    | some q =>
      exact ⟨hu, inv_pop _ hr q.1 q.2 hp, lu, by simp [pop_lengths_length _ q.1 q.2 hp, lr], la⟩
  | aadd k => exact ⟨hu, hr, lu, lr, la⟩
  | azero => exact ⟨hu, hr, lu, lr, la⟩
  | checkpoint =>
    exact ⟨inv_snapshot _ hu, inv_snapshot _ hr,
      by simp [applyOp, checkpoint, snapshot_lengths, lu],
      by simp [applyOp, checkpoint, snapshot_lengths, lr],
      by simp [applyOp, checkpoint, SnapInt.snapshot, la]⟩
  | ok =>
    exact ⟨inv_dropSnap _ hu, inv_dropSnap _ hr,
      by simp [applyOp, ok, dropSnap_lengths_length, lu],
      by simp [applyOp, ok, dropSnap_lengths_length, lr],
      by simp [applyOp, ok, SnapInt.drop, la]⟩
  | restore =>
    refine ⟨inv_restore _ hu, inv_restore _ hr,
      by simp [applyOp, restore, restore_lengths_length, lu],
      by simp [applyOp, restore, restore_lengths_length, lr], ?_⟩
    cases hs : c.adepth.snaps with
    | nil => simp [applyOp, restore, SnapInt.restore, hs, ← la]
    | cons v vs => simp [applyOp, restore, SnapInt.restore, hs, ← la]

theorem zip4_tail (a : List Nat) (b : List (List Str)) (c : List (List String)) (d : List Int) :
    zip4 a.tail b.tail c.tail d.tail = (zip4 a b c d).tail := by
  cases a <;> cases b <;> cases c <;> cases d <;> simp [zip4]

theorem absP_apply (c : PState) (op : StateOp) (h : CkInv c) :
    absP (c.applyOp op) = (absP c).applyOp op := by
  obtain ⟨hu, hr, lu, lr, la⟩ := h
  cases op with
  | setPos p => rfl
  | upush x => simp [applyOp, absP, RState.applyOp, snapsOf_push _ x hu, push_items]
  | upop =>
    simp only [applyOp]
    cases hp : c.ustack.pop with
    | none =>
      have : c.ustack.items = [] := by
        rcases hc : c.ustack with ⟨items, popped, lengths⟩
        rw [hc] at hp
        cases items with
        | nil => rfl
        | cons y rest => cases lengths with
          | nil => simp [pop] at hp
          | cons q ls => obtain ⟨ic, rc⟩ := q; by_cases hq : rest.length + 1 = rc <;> simp [pop, hq] at hp
      simp [absP, RState.applyOp, this]
    | some q =>
      obtain ⟨s1, s2⟩ := snapsOf_pop _ hu q.1 q.2 hp
      simp [absP, RState.applyOp, s1, s2]
  | uclear =>
    obtain ⟨s1, s2⟩ := snapsOf_clear _ hu
    simp [applyOp, absP, RState.applyOp, s1, s2]
  | rpush x => simp [applyOp, absP, RState.applyOp, snapsOf_push _ x hr, push_items]
  | rpop =>
    simp only [applyOp]
    cases hp : c.rstack.pop with
    | none =>
      have : c.rstack.items = [] := by
        rcases hc : c.rstack with ⟨items, popped, lengths⟩
        rw [hc] at hp
        cases items with
        | nil => rfl
        | cons y rest => cases lengths with
          | nil => simp [pop] at hp
          | cons q ls => obtain ⟨ic, rc⟩ := q; by_cases hq : rest.length + 1 = rc <;> simp [pop, hq] at hp
      simp [absP, RState.applyOp, this]
    | some q =>
      obtain ⟨s1, s2⟩ := snapsOf_pop _ hr q.1 q.2 hp
      simp [absP, RState.applyOp, s1, s2]
  | aadd k => simp [applyOp, absP, RState.applyOp, SnapInt.add]
  | azero => simp [applyOp, absP, RState.applyOp, SnapInt.zero]
  | checkpoint =>
    simp [applyOp, absP, RState.applyOp, checkpoint, snapsOf_snapshot, SnapInt.snapshot, zip4,
      snapshot_items]
  | ok =>
    simp [applyOp, absP, RState.applyOp, ok, snapsOf_dropSnap _ hu, snapsOf_dropSnap _ hr, SnapInt.drop,
      zip4_tail, dropSnap_items]
  | restore =>
    simp only [applyOp]
    cases hph : c.posHist with
    | nil =>
      have hul : c.ustack.lengths = [] := by
        rw [hph] at lu; exact List.eq_nil_of_length_eq_zero lu
      have hrl : c.rstack.lengths = [] := by
        rw [hph] at lr; exact List.eq_nil_of_length_eq_zero lr
      have hal : c.adepth.snaps = [] := by
        rw [hph] at la; exact List.eq_nil_of_length_eq_zero la
      simp [absP, RState.applyOp, restore, hph, hal, restore_nil _ hul, restore_nil _ hrl, zip4,
        SnapInt.restore, snapsOf_nil]
    | cons p ps =>
      have hp : c.posHist ≠ [] := by simp [hph]
      have hul : c.ustack.lengths ≠ [] := by
        intro e; rw [e] at lu; exact hp (List.eq_nil_of_length_eq_zero lu.symm)
      have hrl : c.rstack.lengths ≠ [] := by
        intro e; rw [e] at lr; exact hp (List.eq_nil_of_length_eq_zero lr.symm)
      have hal : c.adepth.snaps ≠ [] := by
        intro e; rw [e] at la; exact hp (List.eq_nil_of_length_eq_zero la.symm)
      cases has : c.adepth.snaps with
      | nil => exact absurd has hal
      | cons v vs =>
        simp [absP, RState.applyOp, restore, hph, has, snapsOf_cons _ hul, snapsOf_cons _ hrl,
          zip4, SnapInt.restore]

end PState
end Pest
