/-
  Lemmas/OptSoundMain.lean — `Opt.optimize` as a whole: the SKIP fusion, then the fold over the
  passes.  `optimize_sound_of`: the statement of C02 for any feature set `F` whose matcher passes
  have been provided (`Builders`, `FusionWS`).
-/
import PestModel.Lemmas.OptSoundFusion

set_option linter.unusedVariables false

namespace Pest
namespace OptS

open L0

/-! ### hypotheses on the un-optimized grammar -/

/-- well-formedness of the grammar the optimizer is given (see `NodeOK`, `NotPOK`) -/
structure WF (F : Feat) (g : Grammar) : Prop where
  nodes : ∀ r ∈ g.rules, AllN (NodeOK ⟨sigOf g, forced r⟩) r.body
  /-- no grammar rule is called `SKIP` -/
  noSkip : ∀ r ∈ g.rules, r.name ≠ "SKIP"
  notp : F.skip = true → ∀ r ∈ g.rules, AllN (NotPOK g) r.body
  /-- if WHITESPACE gets fused, none of its alternatives is the empty string (the un-optimized
      `parse_trivia` loop would never end on it, while the fused regex stops) -/
  wsProgress : ∀ wr es alts, g.lookup "COMMENT" = none → g.lookup "WHITESPACE" = some wr →
    wr.body = .choice es → Opt.squash 1000 es [] = some alts → ∀ s ci, Alt.lit s ci ∈ alts → s ≠ []

theorem WF.lookup_skip {F : Feat} {g : Grammar} (h : WF F g) : g.lookup "SKIP" = none := by
  unfold Grammar.lookup
  rw [List.find?_eq_none]
  intro x hx
  have := h.noSkip x hx
  simpa using this

theorem WF.any_skip {F : Feat} {g : Grammar} (h : WF F g) : g.rules.any (·.name == "SKIP") = false := by
  rw [List.any_eq_false]
  intro x hx
  have := h.noSkip x hx
  simpa using this

theorem WF.fused {F : Feat} {g : Grammar} (h : WF F g) : g.fusedSkip = none := by
  unfold Grammar.fusedSkip; rw [h.lookup_skip]

/-! ### `_optimize_skip_rule` -/

def skipRule (body : Expr) : Rule := { name := "SKIP", mod := SILENT + ATOMIC, body := body, kind := .grammar }

theorem optSkip_cases (g : Grammar) (rules : List Rule) (hns : rules.any (·.name == "SKIP") = false) :
    Opt.optimizeSkipRule g rules = rules ∨
    (∃ cr, rules.find? (·.name == "COMMENT") = some cr ∧ rules.find? (·.name == "WHITESPACE") = none ∧
      hasBit cr.mod SILENT = true ∧ Opt.optimizeSkipRule g rules = rules ++ [skipRule (.rep cr.body)]) ∨
    (∃ wr es alts, rules.find? (·.name == "COMMENT") = none ∧ rules.find? (·.name == "WHITESPACE") = some wr ∧
      hasBit wr.mod SILENT = true ∧ wr.body = .choice es ∧ Opt.squash 1000 es [] = some alts ∧
      Opt.isOrderPreserving g alts = true ∧
      Opt.optimizeSkipRule g rules = rules ++ [skipRule (.optChoice alts true)]) := by
  unfold Opt.optimizeSkipRule
  simp only [hns, Bool.false_eq_true, ↓reduceIte]
  cases hc : rules.find? (·.name == "COMMENT") with
  | some cr =>
    cases hw : rules.find? (·.name == "WHITESPACE") with
    | some wr => exact Or.inl rfl
    | none =>
      dsimp only
      by_cases hs : hasBit cr.mod SILENT = true
      · rw [if_pos hs]
        exact Or.inr (Or.inl ⟨cr, rfl, rfl, hs, rfl⟩)
      · rw [if_neg hs]; exact Or.inl rfl
  | none =>
    cases hw : rules.find? (·.name == "WHITESPACE") with
    | none => exact Or.inl rfl
    | some wr =>
      dsimp only
      by_cases hs : hasBit wr.mod SILENT = true
      · rw [if_pos hs]
        cases hb : wr.body with
        | choice es =>
          dsimp only
          cases hq : Opt.squash 1000 es [] with
          | none => exact Or.inl rfl
          | some alts =>
            dsimp only
            by_cases ho : Opt.isOrderPreserving g alts = true
            · rw [if_pos ho]
              exact Or.inr (Or.inr ⟨wr, es, alts, rfl, rfl, hs, hb, hq, ho, rfl⟩)
            · rw [if_neg ho]; exact Or.inl rfl
        | _ => exact Or.inl rfl
      · rw [if_neg hs]; exact Or.inl rfl

/-- the table with the fused rule appended -/
def ext (g : Grammar) (body : Expr) : Grammar := { g with rules := g.rules ++ [skipRule body] }

theorem lookup_ext (g : Grammar) (body : Expr) (hns : g.lookup "SKIP" = none) :
    (∀ n, n ≠ "SKIP" → (ext g body).lookup n = g.lookup n) ∧
    (ext g body).lookup "SKIP" = some (skipRule body) := by
  constructor
  · intro n hn
    unfold Grammar.lookup ext
    simp only [List.find?_append]
    have : [skipRule body].find? (fun x => x.name == n) = none := by
      simp only [List.find?_cons, skipRule, List.find?_nil]
      have : ("SKIP" == n) = false := by simpa using fun h => hn h.symm
      rw [this]
    rw [this, Option.or_none]
  · unfold Grammar.lookup at hns ⊢
    unfold ext
    simp only [List.find?_append, hns, Option.none_or]
    simp [skipRule]

theorem fused_ext (g : Grammar) (body : Expr) (hns : g.lookup "SKIP" = none) :
    (ext g body).fusedSkip = some (skipRule body) := by
  unfold Grammar.fusedSkip
  rw [(lookup_ext g body hns).2]
  simp [skipRule]

theorem sigOf_ext (g : Grammar) (body : Expr) (hns : g.lookup "SKIP" = none) (n : String) (hn : n ≠ "SKIP") :
    sigOf (ext g body) n = sigOf g n := by
  unfold sigOf; rw [(lookup_ext g body hns).1 n hn]

theorem NodeOK_ext (g : Grammar) (body : Expr) (hns : g.lookup "SKIP" = none) {fa : Bool} (x : Expr)
    (h : NodeOK ⟨sigOf g, fa⟩ x) : NodeOK ⟨sigOf (ext g body), fa⟩ x := by
  cases x with
  | ident n t =>
    simp only [NodeOK] at h ⊢
    refine ⟨h.1, h.2.1, ?_⟩
    rw [sigOf_ext g body hns n h.2.1]
    exact h.2.2
  | _ => exact h

variable {F : Feat}

/-- what the WHITESPACE case of the fusion has to provide (OptSoundSquash) -/
def FusionWS (g : Grammar) : Prop :=
  ∀ wr es alts, g.lookup "COMMENT" = none → g.lookup "WHITESPACE" = some wr → hasBit wr.mod SILENT = true →
    wr.body = .choice es → Opt.squash 1000 es [] = some alts → Opt.isOrderPreserving g alts = true →
    (∀ inp n, (∀ e a, NSR e → SimAt inp (ext g (.optChoice alts true)) (run g inp n) a e e) →
      SkipSim g inp (ext g (.optChoice alts true)) (run g inp n) n) ∧
    (∀ inp n, (∀ e a, NSR e → SimAt inp g (run (ext g (.optChoice alts true)) inp n) a e e) →
      SkipSim (ext g (.optChoice alts true)) inp g (run (ext g (.optChoice alts true)) inp n) n)

/-- what `skip` needs of the extended table (OptSoundSkip) -/
def NPExt (F : Feat) (g : Grammar) : Prop :=
  F.skip = true → ∀ body fa e, AllN (NodeOK ⟨sigOf g, fa⟩) e → AllN (NotPOK g) e →
    AllN (NotPOK (ext g body)) e

theorem NSR_of_nodeOK {sg : Cx} {e : Expr} (h : AllN (NodeOK sg) e) : NSR e :=
  AllN.imp (fun x hx => by
    cases x with
    | ident n t => exact hx.2.1
    | _ => trivial) h

theorem Inv_ext {g : Grammar} (hwf : WF F g) (hnp : NPExt F g) (body : Expr)
    (hb : AllN (NodeOK ⟨sigOf g, true⟩) body ∨ ∃ alts, body = .optChoice alts true)
    (hbk : F.skip = true → AllN (NotPOK (ext g body)) body)
    (ht : totalBody body = true)
    (htriv : ¬(g.lookup "WHITESPACE" = none ∧ g.lookup "COMMENT" = none)) :
    Inv F (sigOf (ext g body)) (ext g body) := by
  have hns := hwf.lookup_skip
  refine ⟨fun _ => rfl, fun r hr => ?_, fun r hr hn => ?_, fun _ => ?_, fun r hr => ?_, fun hF r hr => ?_⟩
  · simp only [ext, List.mem_append, List.mem_singleton] at hr
    rcases hr with hr | rfl
    · exact Or.inl (AllN.imp (NodeOK_ext g body hns) (hwf.nodes r hr))
    · rcases hb with hb | hb
      · have hf : forced (skipRule body) = true := by
          show ruleAtomic "SKIP" (SILENT + ATOMIC) false = true
          decide
        rw [hf]
        exact Or.inl (AllN.imp (NodeOK_ext g body hns) hb)
      · exact Or.inr ⟨rfl, hb⟩
  · simp only [ext, List.mem_append, List.mem_singleton] at hr
    rcases hr with hr | rfl
    · exact absurd hn (hwf.noSkip r hr)
    · show hasBit (SILENT + ATOMIC) ATOMIC = true
      decide
  · rw [(lookup_ext g body hns).1 _ (by decide), (lookup_ext g body hns).1 _ (by decide)]
    exact htriv
  · rw [fused_ext g body hns] at hr
    simp only [Option.some.injEq] at hr
    subst hr; exact ht
  · simp only [ext, List.mem_append, List.mem_singleton] at hr
    rcases hr with hr | rfl
    · exact hnp hF body _ _ (hwf.nodes r hr) (hwf.notp hF r hr)
    · exact hbk hF

theorem Inv_same {g : Grammar} (hwf : WF F g) : Inv F (sigOf g) g :=
  ⟨fun _ => rfl, fun r hr => Or.inl (hwf.nodes r hr), fun r hr hn => absurd hn (hwf.noSkip r hr),
   fun h => absurd hwf.fused h, fun r hr => by rw [hwf.fused] at hr; exact absurd hr (by simp), hwf.notp⟩

/-- the outcome of `_optimize_skip_rule` -/
theorem fusion_sound {g : Grammar} (hwf : WF F g) (hws : FusionWS g) (hnp : NPExt F g) :
    ∃ sg, Inv F sg { g with rules := Opt.optimizeSkipRule g g.rules } ∧
      ∀ inp e s r, NSR e → s.pos ≤ inp.size →
        (Conv g inp e s r ↔ Conv { g with rules := Opt.optimizeSkipRule g g.rules } inp e s r) := by
  have hns := hwf.lookup_skip
  have hbodies : ∀ n r, g.lookup n = some r → NSR r.body :=
    fun n r h => NSR_of_nodeOK (hwf.nodes r (lookup_mem h))
  rcases optSkip_cases g g.rules hwf.any_skip with h | ⟨cr, hc, hw, hs, h⟩ | ⟨wr, es, alts, hc, hw, hs, hb, hq, ho, h⟩
  · rw [h]
    exact ⟨sigOf g, Inv_same hwf, fun _ _ _ _ _ _ => Iff.rfl⟩
  · rw [h]
    have hcn : cr.name = "COMMENT" := by
      have := List.find?_some hc
      simpa using this
    have hmem : cr ∈ g.rules := List.mem_of_find?_eq_some hc
    have hfc : forced cr = true := by
      simp [forced, ruleAtomic, hcn, L1.isTriviaName]
    have hcb : AllN (NodeOK ⟨sigOf g, true⟩) cr.body := hfc ▸ hwf.nodes cr hmem
    refine ⟨_, Inv_ext hwf hnp (.rep cr.body) (Or.inl ⟨trivial, hcb⟩)
      (fun hF => ⟨trivial, hnp hF _ _ _ (hwf.nodes cr hmem) (hwf.notp hF cr hmem)⟩) rfl (fun h => by
        have : g.lookup "COMMENT" = some cr := hc
        rw [this] at h; exact absurd h.2 (by simp)), ?_⟩
    intro inp e s r he hp
    have hl := lookup_ext g (.rep cr.body) hns
    exact ext_equiv (g := g) (g0 := ext g (.rep cr.body)) rfl hl.1 hbodies
      (fun inp n ih => skipC_fwd inp hcn hs hwf.fused hw hc (fused_ext g _ hns) (run_AP g inp n)
        (run_PB g inp n) n (ih _ _ (hbodies _ _ hc)))
      (fun inp n ih => skipC_bwd inp hcn hs hwf.fused hw hc (fused_ext g _ hns) n (ih _ _ (hbodies _ _ hc)))
      inp e he s r hp
  · rw [h]
    have hmem : wr ∈ g.rules := List.mem_of_find?_eq_some hw
    refine ⟨_, Inv_ext hwf hnp (.optChoice alts true) (Or.inr ⟨alts, rfl⟩) (fun _ => trivial) rfl (fun h => by
        have : g.lookup "WHITESPACE" = some wr := hw
        rw [this] at h; exact absurd h.1 (by simp)), ?_⟩
    intro inp e s r he hp
    have hl := lookup_ext g (.optChoice alts true) hns
    obtain ⟨f1, f2⟩ := hws wr es alts hc hw hs hb hq ho
    exact ext_equiv (g := g) (g0 := ext g (.optChoice alts true)) rfl hl.1 hbodies f1 f2 inp e he s r hp

/-- **`Opt.optimize`**, for a feature set whose matcher passes have been provided -/
theorem optimize_sound_of {g g' : Grammar} (hwf : WF F g) (hws : FusionWS g) (hnp : NPExt F g)
    (B : ∀ sg, Builders F sg g) (passes : List Opt.Pass) (hp : ∀ p ∈ passes, Allowed F p)
    (h : Opt.optimize g passes = some g') :
    (∀ inp e s r, NSR e → s.pos ≤ inp.size → (Conv g inp e s r ↔ Conv g' inp e s r)) ∧ SkipTotal g' := by
  unfold Opt.optimize at h
  simp only [Option.map_eq_some_iff] at h
  obtain ⟨rs, hfold, rfl⟩ := h
  obtain ⟨sg, hinv0, heq0⟩ := fusion_sound hwf hws hnp
  have := passes_sound (B sg) passes hp _ rs hinv0 hfold
  refine ⟨fun inp e s r he hp => (heq0 inp e s r he hp).trans (this.1 inp e s r hp), this.2.total⟩

/-- the start rule is a rule of the grammar, so not `SKIP` -/
theorem NSR_start {g : Grammar} (hwf : WF F g) {start : String} (hs : g.lookup start ≠ none) :
    NSR (.ident start none) := by
  show start ≠ "SKIP"
  intro h
  rw [h, hwf.lookup_skip] at hs
  exact hs rfl

end OptS
end Pest
