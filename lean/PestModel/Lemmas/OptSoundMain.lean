/-
  Lemmas/OptSoundMain.lean — `Opt.optimize` as a whole: the SKIP fusion, then the fold over the
  passes.  `optimize_sound_of`: the statement of C02 for any feature set `F` whose matcher passes
  have been provided (`Builders`, `FusionWS`).
-/
import PestModel.Lemmas.OptSoundFusion

set_option linter.unusedVariables false

namespace Pest
namespace OptS

open L0

/-! ### hypotheses on the un-optimized grammar -/

/-- well-formedness of the grammar the optimizer is given (see `NodeOK`); `OptS.wfCheck`
    (OptHyps.lean) decides it -/
structure WF (g : Grammar) : Prop where
  nodes : ∀ r ∈ g.rules, AllN (NodeOK (sigOf g)) r.body
  /-- no grammar rule called `SKIP` carries the modifier `SILENT+ATOMIC` by which `parse_trivia`
      recognises the optimizer's fused rule (the front end gives a rule one modifier) -/
  noFused : g.fusedSkip = none
  /-- `SKIP` is not referenced unless the grammar defines it: the reference would be a `KeyError`
      un-optimized and the fused trivia rule optimized -/
  skipRef : g.lookup "SKIP" = none → ∀ r ∈ g.rules, NSR r.body
  /-- if WHITESPACE gets fused, none of its alternatives is the empty string (the un-optimized
      `parse_trivia` loop would never end on it, while the fused regex stops) -/
  wsProgress : ∀ wr es alts, g.lookup "COMMENT" = none → g.lookup "WHITESPACE" = some wr →
    wr.body = .choice es → Opt.squash 1000 es [] = some alts → ∀ s ci, Alt.lit s ci ∈ alts → s ≠ []

theorem any_skip_iff (g : Grammar) : g.rules.any (·.name == "SKIP") = false ↔ g.lookup "SKIP" = none := by
  unfold Grammar.lookup
  rw [List.find?_eq_none, List.any_eq_false]

/-! ### `_optimize_skip_rule` -/

def skipRule (body : Expr) : Rule := { name := "SKIP", mod := SILENT + ATOMIC, body := body, kind := .grammar }

theorem optSkip_cases (g : Grammar) (rules : List Rule) :
    Opt.optimizeSkipRule g rules = rules ∨
    (rules.any (·.name == "SKIP") = false ∧
     ∃ cr, rules.find? (·.name == "COMMENT") = some cr ∧ rules.find? (·.name == "WHITESPACE") = none ∧
      hasBit cr.mod SILENT = true ∧ Opt.optimizeSkipRule g rules = rules ++ [skipRule (.rep cr.body)]) ∨
    (rules.any (·.name == "SKIP") = false ∧
     ∃ wr es alts, rules.find? (·.name == "COMMENT") = none ∧ rules.find? (·.name == "WHITESPACE") = some wr ∧
      hasBit wr.mod SILENT = true ∧ wr.body = .choice es ∧ Opt.squash 1000 es [] = some alts ∧
      Opt.isOrderPreserving g alts = true ∧
      Opt.optimizeSkipRule g rules = rules ++ [skipRule (.optChoice alts true)]) := by
  by_cases hns : rules.any (·.name == "SKIP") = true
  · left
    unfold Opt.optimizeSkipRule
    simp only [hns, ↓reduceIte]
  have hns : rules.any (·.name == "SKIP") = false := by simpa using hns
  unfold Opt.optimizeSkipRule
  simp only [hns, Bool.false_eq_true, ↓reduceIte]
  cases hc : rules.find? (·.name == "COMMENT") with
  | some cr =>
    cases hw : rules.find? (·.name == "WHITESPACE") with
    | some wr => exact Or.inl rfl
    | none =>
      dsimp only
      by_cases hs : hasBit cr.mod SILENT = true
      · rw [if_pos hs]
        exact Or.inr (Or.inl ⟨trivial, cr, rfl, rfl, hs, rfl⟩)
      · rw [if_neg hs]; exact Or.inl rfl
  | none =>
    cases hw : rules.find? (·.name == "WHITESPACE") with
    | none => exact Or.inl rfl
    | some wr =>
      dsimp only
      by_cases hs : hasBit wr.mod SILENT = true
      · rw [if_pos hs]
        cases hb : wr.body with
        | choice es =>
          dsimp only
          cases hq : Opt.squash 1000 es [] with
          | none => exact Or.inl rfl
          | some alts =>
            dsimp only
            by_cases ho : Opt.isOrderPreserving g alts = true
            · rw [if_pos ho]
              exact Or.inr (Or.inr ⟨trivial, wr, es, alts, rfl, rfl, hs, hb, hq, ho, rfl⟩)
            · rw [if_neg ho]; exact Or.inl rfl
        | _ => exact Or.inl rfl
      · rw [if_neg hs]; exact Or.inl rfl

/-- the table with the fused rule appended -/
def ext (g : Grammar) (body : Expr) : Grammar := { g with rules := g.rules ++ [skipRule body] }

theorem lookup_ext_ne (g : Grammar) (body : Expr) (n : String) (hn : n ≠ "SKIP") :
    (ext g body).lookup n = g.lookup n := by
  unfold Grammar.lookup ext
  simp only [List.find?_append]
  have : [skipRule body].find? (fun x => x.name == n) = none := by
    simp only [List.find?_cons, skipRule, List.find?_nil]
    have : ("SKIP" == n) = false := by simpa using fun h => hn h.symm
    rw [this]
  rw [this, Option.or_none]

theorem lookup_ext (g : Grammar) (body : Expr) (hns : g.lookup "SKIP" = none) :
    (∀ n, n ≠ "SKIP" → (ext g body).lookup n = g.lookup n) ∧
    (ext g body).lookup "SKIP" = some (skipRule body) := by
  constructor
  · exact fun n hn => lookup_ext_ne g body n hn
  · unfold Grammar.lookup at hns ⊢
    unfold ext
    simp only [List.find?_append, hns, Option.none_or]
    simp [skipRule]

theorem fused_ext (g : Grammar) (body : Expr) (hns : g.lookup "SKIP" = none) :
    (ext g body).fusedSkip = some (skipRule body) := by
  unfold Grammar.fusedSkip
  rw [(lookup_ext g body hns).2]
  simp [skipRule]

theorem sigOf_ext (g : Grammar) (body : Expr) (hns : g.lookup "SKIP" = none) (n : String) (hn : n ≠ "SKIP") :
    sigOf (ext g body) n = sigOf g n := by
  unfold sigOf; rw [(lookup_ext g body hns).1 n hn]

theorem NodeOK_ext (g : Grammar) (body : Expr) (hns : g.lookup "SKIP" = none) (x : Expr)
    (h : NodeOK (sigOf g) x) (hx : NSK x) : NodeOK (sigOf (ext g body)) x := by
  cases x with
  | ident n t =>
    simp only [NodeOK] at h ⊢
    refine ⟨h.1, ?_⟩
    rw [sigOf_ext g body hns n hx]
    exact h.2
  | _ => exact h

theorem AllN_NodeOK_ext (g : Grammar) (body : Expr) (hns : g.lookup "SKIP" = none) {e : Expr}
    (h : AllN (NodeOK (sigOf g)) e) (hx : NSR e) : AllN (NodeOK (sigOf (ext g body))) e :=
  AllN.imp3 (fun x h1 h2 => NodeOK_ext g body hns x h1.root h2.root) e h hx

variable {F : Feat}

/-- what the WHITESPACE case of the fusion has to provide (OptSoundFusionWS) -/
def FusionWS (g : Grammar) : Prop :=
  g.lookup "SKIP" = none → ∀ wr es alts, g.lookup "COMMENT" = none → g.lookup "WHITESPACE" = some wr → hasBit wr.mod SILENT = true →
    wr.body = .choice es → Opt.squash 1000 es [] = some alts → Opt.isOrderPreserving g alts = true →
    (∀ inp n, (∀ e a, NSR e → SimAt inp (ext g (.optChoice alts true)) (run g inp n) a e e) →
      SkipSim g inp (ext g (.optChoice alts true)) (run g inp n) n) ∧
    (∀ inp n, (∀ e a, NSR e → SimAt inp g (run (ext g (.optChoice alts true)) inp n) a e e) →
      SkipSim (ext g (.optChoice alts true)) inp g (run (ext g (.optChoice alts true)) inp n) n)

theorem Inv_ext {g : Grammar} (hwf : WF g) (hns : g.lookup "SKIP" = none) (body : Expr)
    (hb : (AllN (NodeOK (sigOf g)) body ∧ NSR body) ∨ ∃ alts, body = .optChoice alts true)
    (ht : totalBody body = true)
    (htriv : ¬(g.lookup "WHITESPACE" = none ∧ g.lookup "COMMENT" = none)) :
    Inv F (sigOf (ext g body)) (ext g body) := by
  refine ⟨fun _ => rfl, fun r hr => ?_, fun _ => ?_, fun r hr => ?_⟩
  · simp only [ext, List.mem_append, List.mem_singleton] at hr
    rcases hr with hr | rfl
    · exact Or.inl (AllN_NodeOK_ext g body hns (hwf.nodes r hr) (hwf.skipRef hns r hr))
    · rcases hb with hb | hb
      · exact Or.inl (AllN_NodeOK_ext g body hns hb.1 hb.2)
      · refine Or.inr ⟨?_, hb⟩
        show hasBit (SILENT + ATOMIC) ATOMIC = true
        decide
  · rw [(lookup_ext g body hns).1 _ (by decide), (lookup_ext g body hns).1 _ (by decide)]
    exact htriv
  · rw [fused_ext g body hns] at hr
    simp only [Option.some.injEq] at hr
    subst hr; exact ht

theorem Inv_same {g : Grammar} (hwf : WF g) : Inv F (sigOf g) g :=
  ⟨fun _ => rfl, fun r hr => Or.inl (hwf.nodes r hr),
   fun h => absurd hwf.noFused h, fun r hr => by rw [hwf.noFused] at hr; exact absurd hr (by simp)⟩

/-- what `_optimize_skip_rule` does to a property of rule bodies -/
theorem optSkip_kept (g : Grammar) (rules : List Rule) {P : Expr → Prop} (hpr : ∀ r ∈ rules, P r.body)
    (hrep : ∀ e, P e → P (.rep e)) (hopt : ∀ alts, P (.optChoice alts true)) :
    ∀ r ∈ Opt.optimizeSkipRule g rules, P r.body := by
  rcases optSkip_cases g rules with h | ⟨_, cr, hc, _, _, h⟩ | ⟨_, wr, es, alts, _, _, _, _, _, _, h⟩
  · rw [h]; exact hpr
  · rw [h]
    intro r hr
    simp only [List.mem_append, List.mem_singleton] at hr
    rcases hr with hr | rfl
    · exact hpr r hr
    · exact hrep _ (hpr cr (List.mem_of_find?_eq_some hc))
  · rw [h]
    intro r hr
    simp only [List.mem_append, List.mem_singleton] at hr
    rcases hr with hr | rfl
    · exact hpr r hr
    · exact hopt alts

/-- the outcome of `_optimize_skip_rule` -/
theorem fusion_sound {g : Grammar} (hwf : WF g) (hws : FusionWS g) :
    ∃ sg, Inv F sg { g with rules := Opt.optimizeSkipRule g g.rules } ∧
      ∀ inp e s r, (g.lookup "SKIP" = none → NSR e) → s.pos ≤ inp.size →
        (Conv g inp e s r ↔ Conv { g with rules := Opt.optimizeSkipRule g g.rules } inp e s r) := by
  rcases optSkip_cases g g.rules with h | ⟨hany, cr, hc, hw, hs, h⟩ | ⟨hany, wr, es, alts, hc, hw, hs, hb, hq, ho, h⟩
  · rw [h]
    exact ⟨sigOf g, Inv_same hwf, fun _ _ _ _ _ _ => Iff.rfl⟩
  · rw [h]
    have hns := (any_skip_iff g).1 hany
    have hbodies : ∀ n r, g.lookup n = some r → NSR r.body :=
      fun n r h => hwf.skipRef hns r (lookup_mem h)
    have hcn : cr.name = "COMMENT" := by
      have := List.find?_some hc
      simpa using this
    have hmem : cr ∈ g.rules := List.mem_of_find?_eq_some hc
    refine ⟨_, Inv_ext hwf hns (.rep cr.body)
      (Or.inl ⟨⟨trivial, hwf.nodes cr hmem⟩, ⟨trivial, hwf.skipRef hns cr hmem⟩⟩) rfl (fun h => by
        have : g.lookup "COMMENT" = some cr := hc
        rw [this] at h; exact absurd h.2 (by simp)), ?_⟩
    intro inp e s r he hp
    have hl := lookup_ext g (.rep cr.body) hns
    exact ext_equiv (g := g) (g0 := ext g (.rep cr.body)) rfl hl.1 hbodies
      (fun inp n ih => skipC_fwd inp hcn hs hwf.noFused hw hc (fused_ext g _ hns) (run_AP g inp n)
        (run_PB g inp n) n (ih _ _ (hbodies _ _ hc)))
      (fun inp n ih => skipC_bwd inp hcn hs hwf.noFused hw hc (fused_ext g _ hns) n (ih _ _ (hbodies _ _ hc)))
      inp e (he hns) s r hp
  · rw [h]
    have hns := (any_skip_iff g).1 hany
    have hbodies : ∀ n r, g.lookup n = some r → NSR r.body :=
      fun n r h => hwf.skipRef hns r (lookup_mem h)
    have hmem : wr ∈ g.rules := List.mem_of_find?_eq_some hw
    refine ⟨_, Inv_ext hwf hns (.optChoice alts true) (Or.inr ⟨alts, rfl⟩) rfl (fun h => by
        have : g.lookup "WHITESPACE" = some wr := hw
        rw [this] at h; exact absurd h.1 (by simp)), ?_⟩
    intro inp e s r he hp
    have hl := lookup_ext g (.optChoice alts true) hns
    obtain ⟨f1, f2⟩ := hws hns wr es alts hc hw hs hb hq ho
    exact ext_equiv (g := g) (g0 := ext g (.optChoice alts true)) rfl hl.1 hbodies f1 f2 inp e (he hns) s r hp

/-- **`Opt.optimize`**, for a feature set whose matcher passes have been provided; `P` is any
    property of rule bodies that the rewrites keep -/
theorem optimize_sound_of {g g' : Grammar} (hwf : WF g) (hws : FusionWS g)
    (B : ∀ sg, Builders F sg g) (passes : List Opt.Pass) (hp : ∀ p ∈ passes, Allowed F p)
    {P : Expr → Prop} (hP : Kept F P) (hrep : ∀ e, P e → P (.rep e)) (hopt : ∀ alts, P (.optChoice alts true))
    (hpr : ∀ r ∈ g.rules, P r.body)
    (h : Opt.optimize g passes = some g') :
    (∀ inp e s r, (g.lookup "SKIP" = none → NSR e) → s.pos ≤ inp.size →
      (Conv g inp e s r ↔ Conv g' inp e s r)) ∧ SkipTotal g' ∧ (∀ r ∈ g'.rules, P r.body) := by
  unfold Opt.optimize at h
  simp only [Option.map_eq_some_iff] at h
  obtain ⟨rs, hfold, rfl⟩ := h
  obtain ⟨sg, hinv0, heq0⟩ := fusion_sound (F := F) hwf hws
  have := passes_sound (B sg) hP passes hp _ rs hinv0 (optSkip_kept g g.rules hpr hrep hopt) hfold
  refine ⟨fun inp e s r he hp => (heq0 inp e s r he hp).trans (this.1 inp e s r hp), this.2.1.total, this.2.2⟩

/-- the start rule is a rule of the grammar, so not the fused `SKIP` -/
theorem NSR_start {g : Grammar} {start : String} (hs : g.lookup start ≠ none) :
    g.lookup "SKIP" = none → NSR (.ident start none) := by
  intro hns
  show start ≠ "SKIP"
  intro h
  rw [h, hns] at hs
  exact hs rfl

end OptS
end Pest
