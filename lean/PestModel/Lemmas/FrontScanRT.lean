/-
  Lemmas/FrontScanRT.lean — the scanner half of the C10 round trip:

    scan_roundtrip : g.WF → ∃ toks, scan g.pretty = .ok toks ∧ kvOf toks = g.kv

  for every well-formed source-level grammar `g` (Front/Ast.lean): scanning the canonical text
  gives exactly the expected kinds and values.  Token-level facts are in
  Lemmas/FrontScanTok.lean (triples `Sp m inp a tl kvs` over the remaining text).

  Structure.  The recursion `accept_expression → accept_term → accept_terminal →
  accept_expression` is open in the model (`acceptExpression (f+1) = exprStep (acceptExpression f)`),
  so the AST is never inducted on mutually:
    * `ExprOK rec e`  : `rec` scans the canonical text of `e` (with or without leading `|`);
      `TermOK rec t`  : `acceptTerm rec` scans the canonical text of `t`;
    * `sp_terminal`, `termOK` : a node / a term is scanned if `rec` scans the expression inside
      its parentheses / `PUSH( )` (`SubOK`);
    * `sp_exprLoop`, `exprStep_ok` : `exprStep rec` scans `e` if `acceptTerm rec` scans its terms;
    * `acceptExpression_ok` : induction on the fuel, which only has to exceed the nesting depth
      (`exprDepth`), and `exprDepth e ≤ e.kv.length ≤ |text|` (`exprDepth_le`).
  Rules and doc comments: one triple per state function and text shape (`sp_stateFn_*`), chained
  in continuation style (`run_docs`, `run_rules`), the number of calls counted explicitly
  (`calls`) and compared with the bound `3·|text| + 3` of `scan` (`calls_le`, `run_mono`).
-/
import PestModel.Lemmas.FrontScanTok

namespace Pest
namespace Front
namespace RT

/-! ### shape of expressions -/

mutual
/-- nesting depth of parentheses and `PUSH( )` -/
def nodeDepth : SNode → Nat
  | .push _ e => exprDepth e + 1
  | .paren _ e => exprDepth e + 1
  | _ => 0
def termDepth : STerm → Nat
  | .mk _ _ nd _ => nodeDepth nd
def exprDepth : SExpr → Nat
  | .one t => termDepth t
  | .cons t _ r => max (termDepth t) (exprDepth r)
end

def terms : SExpr → List STerm
  | .one t => [t]
  | .cons t _ r => t :: terms r

def firstTerm : SExpr → STerm
  | .one t => t
  | .cons t _ _ => t

/-- the tokens behind the first term -/
def tailKV : SExpr → List KV
  | .one _ => []
  | .cons _ b r => opKV b :: r.kv

theorem kv_first_tail (e : SExpr) : e.kv = (firstTerm e).kv ++ tailKV e := by
  cases e with
  | one t => simp [SExpr.kv, firstTerm, tailKV]
  | cons t b r => simp [SExpr.kv, firstTerm, tailKV]

theorem firstTerm_mem (e : SExpr) : firstTerm e ∈ terms e := by
  cases e <;> simp [firstTerm, terms]

theorem terms_wf : ∀ (e : SExpr), e.WF → ∀ t ∈ terms e, t.WF
  | .one t, h, t', ht' => by
    simp [terms] at ht'; subst ht'; simpa [SExpr.WF] using h
  | .cons t b r, h, t', ht' => by
    simp only [SExpr.WF] at h
    simp only [terms, List.mem_cons] at ht'
    rcases ht' with e | e
    · subst e; exact h.1
    · exact terms_wf r h.2 t' e

theorem terms_depth : ∀ (e : SExpr), ∀ t ∈ terms e, termDepth t ≤ exprDepth e
  | .one t, t', ht' => by
    simp [terms] at ht'; subst ht'; simp [exprDepth]
  | .cons t b r, t', ht' => by
    simp only [terms, List.mem_cons] at ht'
    simp only [exprDepth]
    rcases ht' with e | e
    · subst e; omega
    · have := terms_depth r t' e; omega

/-! ### first characters of the canonical text -/

theorem nodeStart_80 : nodeStart 80 = true := by decide

theorem hd_node {nd : SNode} (h : nd.WF) (X : Text) : Hd nodeStart (spellAll nd.kv ++ X) := by
  cases nd with
  | str s => simp [SNode.kv, spellAll_cons, spell, nodeStart]
  | ci s => simp [SNode.kv, spellAll_cons, spell, nodeStart]
  | range a b =>
    obtain ⟨r, hr⟩ := charLit_cons a
    simp [SNode.kv, spellAll_cons, spell, hr, nodeStart]
  | ident name =>
    have hid : IsIdent name := by simpa [SNode.WF] using h
    obtain ⟨c, r, rfl, hc, _, _⟩ := isIdent_dest hid
    simp [SNode.kv, spellAll_cons, spell_keyword, nodeStart, hc]
  | pushLit s => simp [SNode.kv, spellAll_cons, spell, sPUSH_LITERAL, nodeStart_80]
  | push b e => simp [SNode.kv, spellAll_cons, spell, sPUSH, nodeStart_80]
  | slice a b => simp [SNode.kv, spellAll_cons, spell, sPEEK, nodeStart_80]
  | paren b e => simp [SNode.kv, spellAll_cons, spell, nodeStart]

theorem node_wf_of_term {tag : Option Text} {pre : List Bool} {nd : SNode} {post : List Post}
    (h : (STerm.mk tag pre nd post).WF) : nd.WF := by
  simp only [STerm.WF] at h; exact h.2.1

theorem hd_term {t : STerm} (h : t.WF) (X : Text) : Hd termStart (spellAll t.kv ++ X) := by
  cases t with
  | mk tag pre nd post =>
    have hn := hd_node (node_wf_of_term h) (spellAll (post.map postKV).flatten ++ X)
    cases tag with
    | some tg => simp [STerm.kv, tagKV, spellAll_cons, spell, termStart]
    | none =>
      have := hd_pre pre hn
      simpa [STerm.kv, tagKV, spellAll_append] using this

theorem hd_expr {e : SExpr} (h : e.WF) (X : Text) : Hd termStart (spellAll e.kv ++ X) := by
  have := hd_term (terms_wf e h _ (firstTerm_mem e)) (spellAll (tailKV e) ++ X)
  rw [kv_first_tail]
  simpa [spellAll_append] using this

/-- first characters of an expression: `|` or a term -/
def exprStart (c : Nat) : Bool := c == 124 || termStart c

theorem tokc_exprStart {c : Nat} (h : exprStart c = true) : tokc c = true := by
  simp only [exprStart, Bool.or_eq_true, beq_iff_eq] at h
  rcases h with h | h
  · subst h; decide
  · exact tokc_termStart h

theorem hd_barExpr (bar : Bool) {e : SExpr} (h : e.WF) (X : Text) :
    Hd exprStart (spellAll (barKV bar ++ e.kv) ++ X) := by
  cases bar with
  | true => simp [barKV, spellAll_cons, spell, exprStart]
  | false =>
    have := hd_expr h X
    simpa [barKV] using this.mono (fun c hc => by simp [exprStart, hc])

theorem hd_tail (e : SExpr) {tl : Text} (h : Hd closer tl) :
    Hd afterTerm (spellAll (tailKV e) ++ tl) := by
  cases e with
  | one t => simpa [tailKV] using h.mono @afterTerm_of_closer
  | cons t b r => cases b <;> simp [tailKV, opKV, spellAll_cons, spell, afterTerm]

/-! ### what the recursion has to deliver -/

/-- `rec` scans the canonical text of `e`, with or without a leading `|`, up to the closer -/
def ExprOK (rec : M Unit) (e : SExpr) : Prop :=
  ∀ (bar : Bool) (t tl : Text), Hd closer tl → Bl t (spellAll (barKV bar ++ e.kv) ++ tl) →
    Sp rec t () tl (barKV bar ++ e.kv)

/-- `acceptTerm rec` scans the canonical text of `t` -/
def TermOK (rec : M Unit) (t : STerm) : Prop :=
  ∀ tl : Text, Hd afterTerm tl → Sp (acceptTerm rec) (spellAll t.kv ++ tl) () tl t.kv

/-- `rec` scans the expression inside the node -/
def SubOK (rec : M Unit) : SNode → Prop
  | .push _ e => ExprOK rec e
  | .paren _ e => ExprOK rec e
  | _ => True

/-! ### terminals -/

theorem mLit_pushLit_ne {c : Nat} (r : Text) (h : c ≠ 80) : mLit sPUSH_LITERAL (c :: r) = none :=
  mLit_ne r h

theorem mLit_push_ne {c : Nat} (r : Text) (h : c ≠ 80) : mLit sPUSH (c :: r) = none :=
  mLit_ne r h

theorem sp_scanIdent {name : Text} (h : IsIdent name) (tl : Text) :
    Sp scanIdent (name ++ 32 :: tl) (some (keywordKind name)) (32 :: tl)
      [(keywordKind name, name)] := by
  intro s hs
  have hm := mIdentifier_ident h tl
  refine ⟨(s.adv name.length).emit (keywordKind name) name, ?_, by simp [hs], by simp⟩
  simp [scanIdent, hs, hm]

theorem sp_scanIdent_none {c : Nat} (r : Text) (h : isIdentStart c = false) :
    Sp scanIdent (c :: r) none (c :: r) [] := by
  intro s hs
  exact ⟨s, by simp [scanIdent, hs, mIdentifier_none r h], hs, by simp⟩

theorem sp_terminal_str (rec : M Unit) (s tl : Text) :
    Sp (acceptTerminal rec) (spellAll (SNode.str s).kv ++ tl) true (32 :: tl) (SNode.str s).kv := by
  unfold acceptTerminal
  sp_begin
  sp_step (sp_scanEmit_none .pushLiteral
    (mLit_pushLit_ne (c := 34) (escapeBody s ++ 34 :: 32 :: tl) (by decide)))
  sp_step (sp_scanEmit_none .push (mLit_push_ne _ (by decide)))
  sp_step (sp_scanIdent_none _ (by decide))
  sp_step (sp_acceptString s (32 :: tl))
  exact Sp.pure true _
  case hi => simp [SNode.kv, spellAll_cons, spell]
  case hk => simp [SNode.kv]

theorem sp_terminal_ci (rec : M Unit) (s tl : Text) :
    Sp (acceptTerminal rec) (spellAll (SNode.ci s).kv ++ tl) true (32 :: tl) (SNode.ci s).kv := by
  unfold acceptTerminal
  sp_begin
  sp_step (sp_scanEmit_none .pushLiteral
    (mLit_pushLit_ne (c := 94) (34 :: (escapeBody s ++ 34 :: 32 :: tl)) (by decide)))
  sp_step (sp_scanEmit_none .push (mLit_push_ne _ (by decide)))
  sp_step (sp_scanIdent_none _ (by decide))
  sp_step (sp_acceptString_no (by simp))
  sp_step (sp_acceptCIString s (32 :: tl))
  exact Sp.pure true _
  case hi => simp [SNode.kv, spellAll_cons, spell]
  case hk => simp [SNode.kv]

theorem sp_terminal_range (rec : M Unit) (a b : Nat) (tl : Text) :
    Sp (acceptTerminal rec) (spellAll (SNode.range a b).kv ++ tl) true (32 :: tl)
      (SNode.range a b).kv := by
  obtain ⟨ra, ha⟩ := charLit_cons a
  have hin : spellAll (SNode.range a b).kv ++ tl =
      39 :: (ra ++ 32 :: 46 :: 46 :: 32 :: (charLit b ++ 32 :: tl)) := by
    simp [SNode.kv, spellAll_cons, spell, ha]
  have hcr := sp_charRange a b tl
  rw [show spellAll [(TK.char, charLit a), (TK.rangeOp, [46, 46]), (TK.char, charLit b)] ++ tl =
    39 :: (ra ++ 32 :: 46 :: 46 :: 32 :: (charLit b ++ 32 :: tl)) from hin] at hcr
  unfold acceptTerminal
  sp_begin
  sp_step (sp_scanEmit_none .pushLiteral
    (mLit_pushLit_ne (c := 39) (ra ++ 32 :: 46 :: 46 :: 32 :: (charLit b ++ 32 :: tl)) (by decide)))
  sp_step (sp_scanEmit_none .push (mLit_push_ne _ (by decide)))
  sp_step (sp_scanIdent_none _ (by decide))
  sp_step (sp_acceptString_no (by simp))
  sp_step (sp_acceptCIString_no (by simp))
  exact hcr
  case hi => exact hin
  case hk => simp [SNode.kv]

theorem sp_terminal_ident (rec : M Unit) {name : Text} (h : IsIdent name) {tl : Text}
    (htl : Hd afterNode tl) :
    ∃ t, Bl t tl ∧ Sp (acceptTerminal rec) (spellAll (SNode.ident name).kv ++ tl) true t
      (SNode.ident name).kv := by
  have hpl := mLit_pushLit_of_push (mLit_push_ident h tl)
  have hp := mLit_push_ident h tl
  by_cases hk : keywordKind name = .peek
  · refine ⟨tl, Bl.refl tl, ?_⟩
    unfold acceptTerminal
    sp_begin
    sp_step (sp_scanEmit_none .pushLiteral hpl)
    sp_step (sp_scanEmit_none .push hp)
    sp_step (sp_scanIdent h tl)
    simp only [hk, ↓reduceIte]
    exact sp_peekTail_no (Bl.one tl) htl
    case hi => simp [SNode.kv, spellAll_cons, spell_keyword]
    case hk => simp [SNode.kv]
  · refine ⟨32 :: tl, Bl.one tl, ?_⟩
    unfold acceptTerminal
    sp_begin
    sp_step (sp_scanEmit_none .pushLiteral hpl)
    sp_step (sp_scanEmit_none .push hp)
    sp_step (sp_scanIdent h tl)
    simp only [hk, ↓reduceIte]
    exact Sp.pure true _
    case hi => simp [SNode.kv, spellAll_cons, spell_keyword]
    case hk => simp [SNode.kv]

theorem sp_terminal_slice (rec : M Unit) (a b : Option Int) (tl : Text) :
    Sp (acceptTerminal rec) (spellAll (SNode.slice a b).kv ++ tl) true (32 :: tl)
      (SNode.slice a b).kv := by
  have hpl := mLit_pushLit_of_push (mLit_push_ident isIdent_PEEK (spellAll (sliceKV a b) ++ tl))
  have hp := mLit_push_ident isIdent_PEEK (spellAll (sliceKV a b) ++ tl)
  have hk : keywordKind sPEEK = .peek := by decide
  unfold acceptTerminal
  sp_begin
  sp_step (sp_scanEmit_none .pushLiteral hpl)
  sp_step (sp_scanEmit_none .push hp)
  sp_step (sp_scanIdent isIdent_PEEK _)
  simp only [hk, ↓reduceIte]
  exact sp_peekTail_slice a b tl
  case hi => simp [SNode.kv, sliceKV, spellAll_cons, spellAll_append, spell]
  case hk => simp [SNode.kv, sliceKV, hk]

theorem sp_terminal_pushLit (rec : M Unit) (s tl : Text) :
    Sp (acceptTerminal rec) (spellAll (SNode.pushLit s).kv ++ tl) true (32 :: tl)
      (SNode.pushLit s).kv := by
  unfold acceptTerminal
  sp_begin
  sp_step (sp_scanEmit .pushLiteral (mLit_self sPUSH_LITERAL
    (32 :: 40 :: 32 :: 34 :: (escapeBody s ++ 34 :: 32 :: 41 :: 32 :: tl))))
  sp_step (sp_triv (stop_tokc _ (by decide)))
  sp_step (sp_expect 40 .lparen .expectedLParen _)
  sp_step (sp_triv (stop_tokc _ (by decide)))
  sp_step (sp_acceptString s (32 :: 41 :: 32 :: tl))
  sp_step (sp_triv (stop_tokc _ (by decide)))
  sp_step (sp_expect 41 .rparen .expectedRParen _)
  exact Sp.pure true _
  case hi => simp [SNode.kv, spellAll_cons, spell]
  case hk => simp [SNode.kv]

theorem sp_terminal_push (rec : M Unit) (bar : Bool) {e : SExpr} (hwf : e.WF) (hrec : ExprOK rec e)
    (tl : Text) :
    Sp (acceptTerminal rec) (spellAll (SNode.push bar e).kv ++ tl) true (32 :: tl)
      (SNode.push bar e).kv := by
  have hno : mLit sPUSH_LITERAL (sPUSH ++ 32 :: 40 :: 32 ::
      (spellAll (barKV bar ++ e.kv) ++ 41 :: 32 :: tl)) = none := by
    simp [mLit, sPUSH, sPUSH_LITERAL, startsWith]
  unfold acceptTerminal
  sp_begin
  sp_step (sp_scanEmit_none .pushLiteral hno)
  sp_step (sp_scanEmit .push (mLit_self sPUSH _))
  sp_step (sp_triv (stop_tokc _ (by decide)))
  sp_step (sp_expect 40 .lparen .expectedLParen _)
  sp_step (sp_triv ((hd_barExpr bar hwf _).stop @tokc_exprStart))
  sp_step (hrec bar _ (41 :: 32 :: tl) (by simp [closer]) (Bl.refl _))
  sp_step (sp_triv_id (stop_tokc _ (by decide)))
  sp_step (sp_expect 41 .rparen .expectedRParen _)
  exact Sp.pure true _
  case hi => simp [SNode.kv, spellAll_cons, spellAll_append, spell]
  case hk => simp [SNode.kv]

theorem sp_terminal_paren (rec : M Unit) (r : Text) :
    Sp (acceptTerminal rec) (40 :: r) false (40 :: r) [] := by
  unfold acceptTerminal
  sp_begin
  sp_step (sp_scanEmit_none .pushLiteral (mLit_pushLit_ne (c := 40) r (by decide)))
  sp_step (sp_scanEmit_none .push (mLit_push_ne _ (by decide)))
  sp_step (sp_scanIdent_none _ (by decide))
  sp_step (sp_acceptString_no (by simp))
  sp_step (sp_acceptCIString_no (by simp))
  exact sp_charRange_no r (by decide)
  case hi => rfl
  case hk => simp

/-- every node but a parenthesis: `accept_terminal` scans it; the blank behind it may be eaten -/
theorem sp_terminal (rec : M Unit) {nd : SNode} (hwf : nd.WF) (hsub : SubOK rec nd)
    (hnp : ∀ b e, nd ≠ .paren b e) {tl : Text} (htl : Hd afterNode tl) :
    ∃ t, Bl t tl ∧ Sp (acceptTerminal rec) (spellAll nd.kv ++ tl) true t nd.kv := by
  cases nd with
  | str s => exact ⟨_, Bl.one tl, sp_terminal_str rec s tl⟩
  | ci s => exact ⟨_, Bl.one tl, sp_terminal_ci rec s tl⟩
  | range a b => exact ⟨_, Bl.one tl, sp_terminal_range rec a b tl⟩
  | ident name => exact sp_terminal_ident rec (by simpa [SNode.WF] using hwf) htl
  | pushLit s => exact ⟨_, Bl.one tl, sp_terminal_pushLit rec s tl⟩
  | push b e =>
    exact ⟨_, Bl.one tl, sp_terminal_push rec b (by simpa [SNode.WF] using hwf) hsub tl⟩
  | slice a b => exact ⟨_, Bl.one tl, sp_terminal_slice rec a b tl⟩
  | paren b e => exact absurd rfl (hnp b e)

/-! ### terms -/

/-- a term is scanned if `rec` scans the expression inside its node -/
theorem termOK (rec : M Unit) {t : STerm} (hwf : t.WF)
    (hsub : match t with | .mk _ _ nd _ => SubOK rec nd) : TermOK rec t := by
  intro tl htl
  cases t with
  | mk tag pre nd post =>
    simp only at hsub
    have hnd : nd.WF := node_wf_of_term hwf
    have htag : ∀ tg, tag = some tg → IsTagName tg := by
      intro tg e; subst e; simp only [STerm.WF] at hwf; exact hwf.1
    -- the text, piece by piece
    let P := spellAll (post.map postKV).flatten ++ tl
    let N := spellAll nd.kv ++ P
    let Q := spellAll (pre.map preKV) ++ N
    have hP : Hd afterNode P := hd_posts post htl
    have hN : Hd nodeStart N := hd_node hnd P
    have hQ : Hd termStart Q := hd_pre pre hN
    have hin : spellAll (STerm.mk tag pre nd post).kv ++ tl = spellAll (tagKV tag) ++ Q := by
      simp [STerm.kv, spellAll_append, Q, N, P]
    have htagStep : Sp acceptTag (spellAll (tagKV tag) ++ Q) () Q (tagKV tag) := by
      cases tag with
      | some tg => exact sp_acceptTag_some (htag tg rfl) (hQ.stop @tokc_termStart)
      | none =>
        have : Hd (fun c => c != 35) Q := by
          cases pre with
          | nil =>
            have hN' : Hd nodeStart Q := by simpa [Q] using hN
            obtain ⟨c, r, e, hc⟩ := hN'.dest
            rw [e]
            have : c ≠ 35 := by
              rcases nodeStart_cases hc with h | h | h | h | h <;> try omega
              have := isIdentStart_cases h; omega
            simp [this]
          | cons b r => cases b <;> simp [Q, spellAll_cons, preKV, spell]
        simpa [tagKV] using sp_acceptTag_none this
    have hpreStep : Sp (fun s => prefixLoop (s.rest.length + 1) s) Q () N (pre.map preKV) := by
      apply Sp.lenFuel pre.length
      · have := length_le_spellAll (pre.map preKV)
        simp [Q] at this ⊢; omega
      · intro n hn; exact sp_prefixLoop pre n N hn hN
    unfold acceptTerm
    by_cases hp : ∃ b e, nd = .paren b e
    · obtain ⟨b, e, rfl⟩ := hp
      have he : e.WF := by simpa [SNode.WF] using hnd
      have hrec : ExprOK rec e := hsub
      have hNin : N = 40 :: 32 :: (spellAll (barKV b ++ e.kv) ++ 41 :: 32 :: P) := by
        simp [N, SNode.kv, spellAll_cons, spellAll_append, spell]
      sp_begin
      sp_step htagStep
      sp_step hpreStep
      rw [hNin]
      sp_step (sp_terminal_paren rec _)
      sp_step (sp_expect 40 .lparen .expectedLParen _)
      sp_step (sp_triv ((hd_barExpr b he _).stop @tokc_exprStart))
      sp_step (hrec b _ (41 :: 32 :: P) (by simp [closer]) (Bl.refl _))
      sp_step (sp_triv_id (stop_tokc _ (by decide)))
      sp_step (sp_expect 41 .rparen .expectedRParen _)
      exact sp_acceptPostfixOps post htl (Bl.one _)
      case hi => exact hin
      case hk => simp [STerm.kv, SNode.kv]
    · have hnp : ∀ b e, nd ≠ .paren b e := fun b e h => hp ⟨b, e, h⟩
      obtain ⟨t', hbl, hterm⟩ := sp_terminal rec hnd hsub hnp hP
      sp_begin
      sp_step htagStep
      sp_step hpreStep
      sp_step hterm
      exact sp_acceptPostfixOps post htl hbl
      case hi => exact hin
      case hk => simp [STerm.kv]

/-! ### expressions -/

theorem sp_leadingChoice (bar : Bool) {X : Text} (hX : Hd termStart X) :
    Sp leadingChoice (spellAll (barKV bar) ++ X) () X (barKV bar) := by
  unfold leadingChoice
  cases bar with
  | true =>
    sp_begin
    sp_step (sp_optChar 124 .choiceOp (32 :: X))
    exact sp_triv (hX.stop @tokc_termStart)
    case hi => simp [barKV, spellAll_cons, spell]
    case hk => simp [barKV]
  | false =>
    sp_begin
    sp_step (sp_optChar_no 124 .choiceOp (head_ne_of_hd hX (by decide)))
    exact Sp.pure () _
    case hi => simp [barKV]
    case hk => simp [barKV]

/-- the loop of `accept_expression` over the terms behind the first one -/
theorem sp_exprLoop (rec : M Unit) : ∀ (e : SExpr), (∀ t ∈ terms e, TermOK rec t) →
    (∀ t ∈ terms e, t.WF) → ∀ (n : Nat), (tailKV e).length < n → ∀ (tl : Text), Hd closer tl →
    Sp (exprLoop rec n) (spellAll (tailKV e) ++ tl) () tl (tailKV e)
  | .one t, _, _, n, hn, tl, htl => by
    cases n with
    | zero => omega
    | succ n =>
      have hat : Hd afterTerm tl := htl.mono @afterTerm_of_closer
      unfold exprLoop
      sp_begin
      sp_step (sp_triv_id (hat.stop @tokc_afterTerm))
      sp_step (sp_optChar_no 126 .sequenceOp (head_ne_of_hd htl (by decide)))
      sp_step (sp_optChar_no 124 .choiceOp (head_ne_of_hd htl (by decide)))
      exact Sp.pure () _
      case hi => simp [tailKV]
      case hk => simp [tailKV]
  | .cons t b r, hT, hW, n, hn, tl, htl => by
    cases n with
    | zero => omega
    | succ n =>
      have hT' : ∀ t ∈ terms r, TermOK rec t := fun t ht => hT t (by simp [terms, ht])
      have hW' : ∀ t ∈ terms r, t.WF := fun t ht => hW t (by simp [terms, ht])
      have hf := firstTerm_mem r
      have hn' : (tailKV r).length < n := by
        simp only [tailKV, List.length_cons] at hn
        rw [kv_first_tail r] at hn
        simp only [List.length_append] at hn
        omega
      let R := spellAll (tailKV r) ++ tl
      have hR : Hd afterTerm R := hd_tail r htl
      have hfirst := hT' _ hf R hR
      have hF : Hd termStart (spellAll (firstTerm r).kv ++ R) := hd_term (hW' _ hf) R
      have ih := sp_exprLoop rec r hT' hW' n hn' tl htl
      unfold exprLoop
      cases b with
      | false =>
        sp_begin
        sp_step (sp_triv_id (tl := 126 :: 32 :: (spellAll (firstTerm r).kv ++ R))
          (stop_tokc _ (by decide)))
        sp_step (sp_optChar 126 .sequenceOp _)
        sp_step (sp_triv (hF.stop @tokc_termStart))
        sp_step hfirst
        exact ih
        case hi => simp [tailKV, opKV, spellAll_cons, spell, kv_first_tail r, spellAll_append, R]
        case hk => simp [tailKV, opKV, kv_first_tail r]
      | true =>
        sp_begin
        sp_step (sp_triv_id (tl := 124 :: 32 :: (spellAll (firstTerm r).kv ++ R))
          (stop_tokc _ (by decide)))
        sp_step (sp_optChar_no 126 .sequenceOp (by simp))
        sp_step (sp_optChar 124 .choiceOp _)
        sp_step (sp_triv (hF.stop @tokc_termStart))
        sp_step hfirst
        exact ih
        case hi => simp [tailKV, opKV, spellAll_cons, spell, kv_first_tail r, spellAll_append, R]
        case hk => simp [tailKV, opKV, kv_first_tail r]

/-- the body of `accept_expression` scans `e` if `acceptTerm rec` scans its terms -/
theorem exprStep_ok (rec : M Unit) {e : SExpr} (hT : ∀ t ∈ terms e, TermOK rec t) (hwf : e.WF) :
    ExprOK (exprStep rec) e := by
  intro bar t tl htl hbl
  have hW := terms_wf e hwf
  let R := spellAll (tailKV e) ++ tl
  have hR : Hd afterTerm R := hd_tail e htl
  have hF : Hd termStart (spellAll (firstTerm e).kv ++ R) := hd_term (hW _ (firstTerm_mem e)) R
  have hin : spellAll (barKV bar ++ e.kv) ++ tl =
      spellAll (barKV bar) ++ (spellAll (firstTerm e).kv ++ R) := by
    rw [kv_first_tail e]; simp [spellAll_append, R]
  have hst : Stop (spellAll (barKV bar ++ e.kv) ++ tl) :=
    (hd_barExpr bar hwf tl).stop @tokc_exprStart
  unfold exprStep
  sp_begin
  sp_step (sp_triv_bl hbl hst)
  rw [hin]
  sp_step (sp_leadingChoice bar hF)
  sp_step (hT _ (firstTerm_mem e) R hR)
  · apply Sp.lenFuel (tailKV e).length
    · have := length_le_spellAll (tailKV e)
      simp [R]; omega
    · intro n hn
      exact sp_exprLoop rec e hT hW n hn tl htl
  case hi => rfl
  case hk => rw [kv_first_tail e]; simp

theorem acceptExpression_succ (f : Nat) : acceptExpression (f + 1) = exprStep (acceptExpression f) :=
  rfl

/-- `accept_expression` scans every well-formed expression whose nesting depth is below the fuel -/
theorem acceptExpression_ok : ∀ (fuel : Nat) (e : SExpr), e.WF → exprDepth e < fuel →
    ExprOK (acceptExpression fuel) e := by
  intro fuel
  induction fuel with
  | zero => intro e _ h; omega
  | succ f ih =>
    intro e hwf hd
    rw [acceptExpression_succ]
    apply exprStep_ok _ _ hwf
    intro t ht
    have htw := terms_wf e hwf t ht
    have htd := terms_depth e t ht
    apply termOK _ htw
    cases t with
    | mk tag pre nd post =>
      simp only
      have hnd : nd.WF := node_wf_of_term htw
      cases nd with
      | push b e' =>
        exact ih e' (by simpa [SNode.WF] using hnd) (by simp [termDepth, nodeDepth] at htd; omega)
      | paren b e' =>
        exact ih e' (by simpa [SNode.WF] using hnd) (by simp [termDepth, nodeDepth] at htd; omega)
      | _ => trivial

/-! ### the depth is below the length of the text -/

mutual
theorem nodeDepth_le : ∀ nd : SNode, nodeDepth nd ≤ nd.kv.length
  | .push b e => by
    have := exprDepth_le e
    simp only [nodeDepth, SNode.kv, List.length_append, List.length_cons, List.length_nil]; omega
  | .paren b e => by
    have := exprDepth_le e
    simp only [nodeDepth, SNode.kv, List.length_append, List.length_cons, List.length_nil]; omega
  | .str _ => by simp [nodeDepth]
  | .ci _ => by simp [nodeDepth]
  | .range _ _ => by simp [nodeDepth]
  | .ident _ => by simp [nodeDepth]
  | .pushLit _ => by simp [nodeDepth]
  | .slice _ _ => by simp [nodeDepth]
theorem termDepth_le : ∀ t : STerm, termDepth t ≤ t.kv.length
  | .mk tag pre nd post => by
    have := nodeDepth_le nd
    simp only [termDepth, STerm.kv, List.length_append]; omega
theorem exprDepth_le : ∀ e : SExpr, exprDepth e ≤ e.kv.length
  | .one t => by
    have := termDepth_le t
    simpa [exprDepth, SExpr.kv] using this
  | .cons t b r => by
    have h1 := termDepth_le t
    have h2 := exprDepth_le r
    simp only [exprDepth, SExpr.kv, List.length_append, List.length_cons, List.length_nil]; omega
end

/-! ### rules -/

/-- the tokens of a rule without its doc comments -/
def ruleKV (r : SRule) : List KV :=
  [(.identifier, r.name), (.assignOp, [61])] ++ modKV r.mod ++ [(.lbrace, [123])] ++ barKV r.bar ++
    r.body.kv ++ [(.rbrace, [125])]

theorem hd_mod (m : Option Nat) (hm : match m with | some c => c = 95 ∨ c = 64 ∨ c = 36 ∨ c = 33 | none => True)
    (X : Text) : Stop (spellAll (modKV m) ++ 123 :: X) := by
  cases m with
  | none => simpa [modKV] using stop_tokc X (c := 123) (by decide)
  | some c =>
    simp only at hm
    simp only [modKV, spellAll_cons, spell, spellAll_nil, List.cons_append, List.nil_append]
    exact stop_tokc _ (by rcases hm with h | h | h | h <;> subst h <;> decide)

/-- `scan_grammar_rule` from the rule name to the closing brace -/
theorem sp_ruleTail {r : SRule} (hwf : r.WF) (more : Text) :
    Sp ruleTail (spellAll (ruleKV r) ++ more) (some .grammarRule) (32 :: more) (ruleKV r) := by
  obtain ⟨_, hname, hmod, hbody⟩ := hwf
  obtain ⟨c, rn, hc, hcs, _, _⟩ := isIdent_dest hname
  let B := spellAll (barKV r.bar ++ r.body.kv) ++ 125 :: 32 :: more
  have hin : spellAll (ruleKV r) ++ more =
      r.name ++ 32 :: 61 :: 32 :: (spellAll (modKV r.mod) ++ 123 :: 32 :: B) := by
    simp [ruleKV, spellAll_cons, spellAll_append, spell, B]
  have hstart : Stop (r.name ++ 32 :: 61 :: 32 :: (spellAll (modKV r.mod) ++ 123 :: 32 :: B)) := by
    rw [hc]; exact stop_tokc _ (tokc_identStart hcs)
  unfold ruleTail
  sp_begin
  sp_step (sp_triv_id hstart)
  sp_step (sp_scanEmit .identifier (mIdentifier_ident hname _))
  sp_step (sp_triv (stop_tokc _ (by decide)))
  sp_step (sp_expect 61 .assignOp .expectedAssign _)
  sp_step (sp_triv (hd_mod r.mod hmod _))
  sp_step (sp_optModifier r.mod hmod _)
  sp_step (sp_expect 123 .lbrace .expectedLBrace _)
  · apply Sp.bind' (m := fun s => acceptExpression (s.rest.length + 1) s)
      (k1 := barKV r.bar ++ r.body.kv) (t1 := 125 :: 32 :: more)
    · apply Sp.lenFuel (exprDepth r.body)
      · have h1 := exprDepth_le r.body
        have h2 := length_le_spellAll (barKV r.bar ++ r.body.kv)
        simp [B] at h2 ⊢; omega
      · intro n hn
        exact acceptExpression_ok n r.body hbody hn r.bar _ _ (by simp [closer]) (Bl.one _)
    · sp_step (sp_expect 125 .rbrace .expectedRBrace _)
      exact Sp.pure _ _
  case hi => exact hin
  case hk => simp [ruleKV]

/-! ### the state functions -/

theorem sp_stateFn_gdoc {ws : Text} (hb : Blank ws) (X : Text) :
    Sp (stateFn .grammar) (ws ++ (sGDOC ++ X)) (some .grammarDocInner) X [(.grammarDoc, sGDOC)] := by
  unfold stateFn
  sp_begin
  sp_step (sp_triv_ws hb (stop_doc X).2)
  sp_step (sp_scanEmit .grammarDoc (mLit_self sGDOC X))
  exact Sp.pure _ _
  case hi => rfl
  case hk => simp

theorem sp_stateFn_rdoc {ws : Text} (hb : Blank ws) (X : Text) :
    Sp (stateFn .grammarRule) (ws ++ (sRDOC ++ X)) (some .ruleDocInner) X [(.ruleDoc, sRDOC)] := by
  unfold stateFn
  sp_begin
  sp_step (sp_triv_ws hb (stop_doc X).1)
  sp_step (sp_scanEmit .ruleDoc (mLit_self sRDOC X))
  exact Sp.pure _ _
  case hi => rfl
  case hk => simp

theorem sp_stateFn_gdocInner {sp l : Text} (hsp : DocSp sp l) (h : IsDocLine l) (more : Text) :
    Sp (stateFn .grammarDocInner) (sp ++ (l ++ 10 :: more)) (some .grammar) (10 :: more)
      [(.commentText, l)] := by
  unfold stateFn
  sp_begin
  sp_step (sp_docInner hsp h more)
  exact Sp.pure _ _
  case hi => rfl
  case hk => simp

theorem sp_stateFn_rdocInner {sp l : Text} (hsp : DocSp sp l) (h : IsDocLine l) (more : Text) :
    Sp (stateFn .ruleDocInner) (sp ++ (l ++ 10 :: more)) (some .grammarRule) (10 :: more)
      [(.commentText, l)] := by
  unfold stateFn
  sp_begin
  sp_step (sp_docInner hsp h more)
  exact Sp.pure _ _
  case hi => rfl
  case hk => simp

/-- where the rules begin: a rule name, a `///` line, or the end of the text -/
def RuleStart (X : Text) : Prop := X = [] ∨ Hd isIdentStart X ∨ ∃ r, X = 47 :: 47 :: 47 :: r

theorem RuleStart.stop {X : Text} (h : RuleStart X) : Stop X := by
  rcases h with h | h | ⟨r, h⟩
  · subst h; exact stop_nil
  · exact h.stop @tokc_identStart
  · subst h; exact (stop_doc r).1

theorem RuleStart.no_gdoc {X : Text} (h : RuleStart X) : mLit sGDOC X = none := by
  rcases h with h | h | ⟨r, h⟩
  · subst h; rfl
  · obtain ⟨c, r, rfl, hc⟩ := h.dest
    have := isIdentStart_cases hc
    exact mLit_ne r (by omega)
  · subst h; simp [mLit, sGDOC, startsWith]

theorem sp_stateFn_grammar_rules {ws X : Text} (hb : Blank ws) (hX : RuleStart X) :
    Sp (stateFn .grammar) (ws ++ X) (some .grammarRule) X [] := by
  unfold stateFn
  sp_begin
  sp_step (sp_triv_ws hb hX.stop)
  sp_step (sp_scanEmit_none .grammarDoc hX.no_gdoc)
  exact Sp.pure _ _
  case hi => rfl
  case hk => simp

theorem sp_stateFn_rule {ws : Text} (hb : Blank ws) {r : SRule} (hwf : r.WF) (more : Text) :
    Sp (stateFn .grammarRule) (ws ++ (spellAll (ruleKV r) ++ more)) (some .grammarRule)
      (32 :: more) (ruleKV r) := by
  obtain ⟨c, rn, hc, hcs, _, _⟩ := isIdent_dest hwf.2.1
  have hin : ∃ Y, spellAll (ruleKV r) ++ more = c :: Y := by
    refine ⟨rn ++ 32 :: (spellAll ([(.assignOp, [61])] ++ modKV r.mod ++ [(.lbrace, [123])] ++
      barKV r.bar ++ r.body.kv ++ [(.rbrace, [125])]) ++ more), ?_⟩
    simp [ruleKV, spellAll_cons, spellAll_append, spell, hc]
  obtain ⟨Y, hY⟩ := hin
  have hst : Stop (spellAll (ruleKV r) ++ more) := by
    rw [hY]; exact stop_tokc _ (tokc_identStart hcs)
  have hnd : mLit sRDOC (spellAll (ruleKV r) ++ more) = none := by
    rw [hY]
    have := isIdentStart_cases hcs
    exact mLit_ne Y (by omega)
  unfold stateFn
  sp_begin
  sp_step (sp_triv_ws hb hst)
  sp_step (sp_scanEmit_none .ruleDoc hnd)
  exact sp_ruleTail hwf more
  case hi => rfl
  case hk => simp

theorem sp_stateFn_end {ws : Text} (hb : Blank ws) : Sp (stateFn .grammarRule) ws none [] [] := by
  have hlast : Sp (fun s : St => if s.rest.isEmpty then SR.ok (none : Option Fn) s
      else error .expectedRule s) [] none [] [] := by
    intro s hs
    exact ⟨s, by simp [hs], hs, by simp⟩
  unfold stateFn ruleTail
  sp_begin
  sp_step (sp_triv_ws (tl := []) hb stop_nil)
  sp_step (sp_scanEmit_none .ruleDoc (t := []) rfl)
  sp_step (sp_triv_id stop_nil)
  sp_step (sp_scanEmit_none .identifier (t := []) rfl)
  exact hlast
  case hi => simp
  case hk => simp

/-! ### the driver loop -/

/-- `run n fn` scans `inp` to the end emitting `K` -/
def RunOK (n : Nat) (fn : Fn) (inp : Text) (K : List KV) : Prop := Sp (run n fn) inp () [] K

theorem run_succ (n : Nat) (fn : Fn) :
    run (n + 1) fn = (stateFn fn >>= fun next =>
      match next with
      | some fn' => run n fn'
      | none => pure ()) := rfl

theorem RunOK.step {n : Nat} {fn fn' : Fn} {inp t1 : Text} {k1 k2 K : List KV}
    (h1 : Sp (stateFn fn) inp (some fn') t1 k1) (h2 : RunOK n fn' t1 k2) (hK : K = k1 ++ k2) :
    RunOK (n + 1) fn inp K := by
  unfold RunOK
  rw [run_succ]
  exact Sp.bind h1 h2 hK

theorem RunOK.last {n : Nat} {fn : Fn} {inp : Text} {K : List KV}
    (h1 : Sp (stateFn fn) inp none [] K) : RunOK (n + 1) fn inp K := by
  unfold RunOK
  rw [run_succ]
  exact Sp.bind h1 (Sp.pure () []) (by simp)

theorem run_mono_one : ∀ (n : Nat) (fn : Fn) (s s' : St), run n fn s = .ok () s' →
    run (n + 1) fn s = .ok () s' := by
  intro n
  induction n with
  | zero => intro fn s s' h; simp [run] at h
  | succ n ih =>
    intro fn s s' h
    rw [run_succ, bind_apply] at h ⊢
    cases hst : stateFn fn s with
    | ok next s1 =>
      rw [hst] at h
      simp only at h ⊢
      cases next with
      | some fn' => simp only at h ⊢; exact ih fn' s1 s' h
      | none => exact h
    | err k st v => rw [hst] at h; simp at h
    | exc nm => rw [hst] at h; simp at h
    | oof => rw [hst] at h; simp at h

theorem RunOK.mono {n m : Nat} {fn : Fn} {inp : Text} {K : List KV} (h : RunOK n fn inp K)
    (hnm : n ≤ m) : RunOK m fn inp K := by
  induction hnm with
  | refl => exact h
  | step _ ih =>
    intro s hs
    obtain ⟨s', e, r, o⟩ := ih s hs
    exact ⟨s', run_mono_one _ fn s s' e, r, o⟩

/-- doc lines (`//!` before the rules: `outer = grammar`; `///`: `outer = grammarRule`), then
    whatever the continuation scans -/
theorem run_docs (outer inner : Fn) (marker : TK) (m : Text)
    (hO : ∀ ws X, Blank ws → Sp (stateFn outer) (ws ++ (m ++ X)) (some inner) X [(marker, m)])
    (hI : ∀ l more, IsDocLine l → Sp (stateFn inner) (32 :: (l ++ 10 :: more)) (some outer) (10 :: more)
      [(.commentText, l)]) :
    ∀ (docs : List Text), (∀ l ∈ docs, IsDocLine l) → ∀ (n : Nat) (ws more : Text) (K : List KV),
    Blank ws → (∀ ws', Blank ws' → RunOK n outer (ws' ++ more) K) →
    RunOK (n + 2 * docs.length) outer (ws ++ ((docs.map (docLine m)).flatten ++ more))
      ((docs.map (docKV marker m)).flatten ++ K) := by
  intro docs
  induction docs with
  | nil => intro _ n ws more K hb hk; simpa using hk ws hb
  | cons l docs ih =>
    intro hd n ws more K hb hk
    have hl : IsDocLine l := hd l (by simp)
    have ih' := ih (fun l' h' => hd l' (by simp [h'])) n [10] more K blank_lf hk
    have e : n + 2 * (l :: docs).length = (n + 2 * docs.length) + 1 + 1 := by simp; omega
    rw [e]
    refine RunOK.step (t1 := 32 :: (l ++ 10 :: ((docs.map (docLine m)).flatten ++ more)))
      (k1 := [(marker, m)]) ?_ (RunOK.step (hI l _ hl) ih' rfl) ?_
    · have := hO ws (32 :: (l ++ 10 :: ((docs.map (docLine m)).flatten ++ more))) hb
      simpa [docLine] using this
    · simp [docKV]

/-- number of state-function calls spent on the rules -/
def ruleCalls : List SRule → Nat
  | [] => 0
  | r :: rs => 2 * r.docs.length + 1 + ruleCalls rs

theorem srule_pretty (r : SRule) (more : Text) :
    r.pretty ++ more = (r.docs.map (docLine sRDOC)).flatten ++ (spellAll (ruleKV r) ++ 10 :: more) := by
  simp [SRule.pretty, ruleKV]

theorem srule_kv (r : SRule) : r.kv = (r.docs.map (docKV .ruleDoc sRDOC)).flatten ++ ruleKV r := by
  simp [SRule.kv, ruleKV]

theorem run_rdocs : ∀ (docs : List Text), (∀ l ∈ docs, IsDocLine l) →
    ∀ (n : Nat) (ws more : Text) (K : List KV),
    Blank ws → (∀ ws', Blank ws' → RunOK n .grammarRule (ws' ++ more) K) →
    RunOK (n + 2 * docs.length) .grammarRule (ws ++ ((docs.map (docLine sRDOC)).flatten ++ more))
      ((docs.map (docKV .ruleDoc sRDOC)).flatten ++ K) :=
  run_docs .grammarRule .ruleDocInner .ruleDoc sRDOC
    (fun _ X hb => sp_stateFn_rdoc hb X) (fun l more h => sp_stateFn_rdocInner (docSp_blank l) h more)

theorem run_gdocs : ∀ (docs : List Text), (∀ l ∈ docs, IsDocLine l) →
    ∀ (n : Nat) (ws more : Text) (K : List KV),
    Blank ws → (∀ ws', Blank ws' → RunOK n .grammar (ws' ++ more) K) →
    RunOK (n + 2 * docs.length) .grammar (ws ++ ((docs.map (docLine sGDOC)).flatten ++ more))
      ((docs.map (docKV .grammarDoc sGDOC)).flatten ++ K) :=
  run_docs .grammar .grammarDocInner .grammarDoc sGDOC
    (fun _ X hb => sp_stateFn_gdoc hb X) (fun l more h => sp_stateFn_gdocInner (docSp_blank l) h more)

theorem run_rules : ∀ (rules : List SRule), (∀ r ∈ rules, r.WF) →
    ∀ (n : Nat) (ws more : Text) (K : List KV), Blank ws →
    (∀ ws', Blank ws' → RunOK n .grammarRule (ws' ++ more) K) →
    RunOK (n + ruleCalls rules) .grammarRule (ws ++ ((rules.map SRule.pretty).flatten ++ more))
      ((rules.map SRule.kv).flatten ++ K) := by
  intro rules
  induction rules with
  | nil => intro _ n ws more K hb hk; simpa [ruleCalls] using hk ws hb
  | cons r rules ih =>
    intro hwf n ws more K hb hk
    have hr : r.WF := hwf r (by simp)
    have ih' := ih (fun r' h' => hwf r' (by simp [h'])) n [32, 10] more K blank_end hk
    -- the rule itself, from any blank prefix
    have hrule : ∀ ws', Blank ws' → RunOK (n + ruleCalls rules + 1) .grammarRule
        (ws' ++ (spellAll (ruleKV r) ++ 10 :: ((rules.map SRule.pretty).flatten ++ more)))
        (ruleKV r ++ ((rules.map SRule.kv).flatten ++ K)) := by
      intro ws' hb'
      exact RunOK.step (sp_stateFn_rule hb' hr _) ih' rfl
    have := run_rdocs r.docs hr.1 (n + ruleCalls rules + 1) ws _ _ hb hrule
    have e : n + ruleCalls (r :: rules) = n + ruleCalls rules + 1 + 2 * r.docs.length := by
      simp [ruleCalls]; omega
    rw [e]
    simpa [srule_pretty, srule_kv] using this

/-! ### the whole grammar -/

theorem ruleStart_rules (rules : List SRule) (hwf : ∀ r ∈ rules, r.WF) (trailing : List Text) :
    RuleStart ((rules.map SRule.pretty).flatten ++ ((trailing.map (docLine sRDOC)).flatten ++ [])) := by
  cases rules with
  | nil =>
    cases trailing with
    | nil => exact Or.inl (by simp)
    | cons l ls => exact Or.inr (Or.inr ⟨_, by simp [docLine, sRDOC]; rfl⟩)
  | cons r rs =>
    have hr : r.WF := hwf r (by simp)
    simp only [List.map_cons, List.flatten_cons, List.append_assoc]
    rw [srule_pretty]
    cases hd : r.docs with
    | nil =>
      obtain ⟨c, rn, hc, hcs, _, _⟩ := isIdent_dest hr.2.1
      refine Or.inr (Or.inl ?_)
      simp [ruleKV, spellAll_cons, spell, hc, hcs]
    | cons l ls => exact Or.inr (Or.inr ⟨_, by simp [docLine, sRDOC]; rfl⟩)

/-- total number of state-function calls on the canonical text -/
def calls (g : SGrammar) : Nat :=
  1 + 2 * g.trailing.length + ruleCalls g.rules + 1 + 2 * g.gdocs.length

theorem run_grammar (g : SGrammar) (h : g.WF) : RunOK (calls g) .grammar g.pretty g.kv := by
  obtain ⟨hg, hr, ht⟩ := h
  have hEnd : ∀ ws, Blank ws → RunOK 1 .grammarRule (ws ++ []) [] := by
    intro ws hb
    simpa using RunOK.last (n := 0) (sp_stateFn_end hb)
  have hTr := fun ws hb => run_rdocs g.trailing ht 1 ws [] [] hb hEnd
  have hRules := fun ws hb => run_rules g.rules hr _ ws _ _ hb hTr
  have hG : ∀ ws, Blank ws → RunOK (1 + 2 * g.trailing.length + ruleCalls g.rules + 1) .grammar
      (ws ++ ((g.rules.map SRule.pretty).flatten ++ ((g.trailing.map (docLine sRDOC)).flatten ++ [])))
      ((g.rules.map SRule.kv).flatten ++ ((g.trailing.map (docKV .ruleDoc sRDOC)).flatten ++ [])) := by
    intro ws hb
    exact RunOK.step (sp_stateFn_grammar_rules hb (ruleStart_rules g.rules hr g.trailing))
      (hRules [] blank_nil) rfl
  have := run_gdocs g.gdocs hg _ [] _ _ blank_nil hG
  simpa [calls, SGrammar.pretty, SGrammar.kv] using this

theorem docs_length_le (m : Text) (hm : 1 ≤ m.length) (docs : List Text) :
    2 * docs.length ≤ ((docs.map (docLine m)).flatten).length := by
  induction docs with
  | nil => simp
  | cons l ls ih =>
    simp only [List.map_cons, List.flatten_cons, List.length_append, List.length_cons, docLine,
      List.length_nil]
    omega

theorem ruleCalls_le (rules : List SRule) :
    ruleCalls rules ≤ ((rules.map SRule.pretty).flatten).length := by
  induction rules with
  | nil => simp [ruleCalls]
  | cons r rs ih =>
    have := docs_length_le sRDOC (by decide) r.docs
    simp only [ruleCalls, List.map_cons, List.flatten_cons, List.length_append, SRule.pretty,
      List.length_cons, List.length_nil]
    omega

theorem calls_le (g : SGrammar) : calls g ≤ 3 * g.pretty.length + 3 := by
  have h1 := docs_length_le sGDOC (by decide) g.gdocs
  have h2 := docs_length_le sRDOC (by decide) g.trailing
  have h3 := ruleCalls_le g.rules
  simp only [calls, SGrammar.pretty, List.length_append]
  omega

end RT

/-- **C10, scanner half.**  Scanning the canonical text of a well-formed source-level grammar
    succeeds and gives exactly the expected tokens (kinds and values): every node kind, tags,
    prefix and postfix chains (all brace forms), leading `|`, nesting to any depth, slices,
    escaped literals, character ranges, keyword identifiers, modifiers, doc comments, any number
    of rules. -/
theorem scan_roundtrip (g : SGrammar) (h : g.WF) :
    ∃ toks, scan g.pretty = .ok toks ∧ kvOf toks = g.kv := by
  obtain ⟨s', e, _, o⟩ := ((RT.run_grammar g h).mono (RT.calls_le g)) (St.init g.pretty) rfl
  refine ⟨s'.toks.reverse, ?_, ?_⟩
  · simp only [scan, e]
  · simpa [RT.out, St.init, kvOf] using o

/-! ### a concrete instance: the hypothesis is met by a grammar using every construct -/

namespace RT.Sample

instance : DecidablePred IsIdent := fun t => by unfold IsIdent; infer_instance
instance : DecidablePred IsDocLine := fun t => by unfold IsDocLine; infer_instance
instance : DecidablePred IsTagName := fun t => by unfold IsTagName; split <;> infer_instance

def tx (x : String) : Text := x.toList.map Char.toNat
def idt (x : String) : STerm := .mk none [] (.ident (tx x)) []

/-- `a ~ #t = ( | b | POP ) * ? { 2 , 30 } | & ! ! "x\"y\\z<LF>" { 7 } ~ #u = ANY { , 0 } ~ '\\' .. 'È' { 12 , }
    | ! PEEK [ -12 .. ] ~ PEEK [ .. 3 ] + | PUSH ( PEEK ) ~ PUSH_LITERAL ( "q\\" ) | #_9 = & ^"Z"` -/
def body : SExpr :=
  .cons (idt "a") false
  (.cons (.mk (some (tx "t")) [] (.paren true (.cons (idt "b") true (.one (idt "POP"))))
      [.rep, .opt, .minmax 2 30]) true
  (.cons (.mk none [true, false, false] (.str (tx "x\"y\\z\n")) [.exact 7]) false
  (.cons (.mk (some (tx "u")) [] (.ident (tx "ANY")) [.max 0]) false
  (.cons (.mk none [] (.range 92 200) [.min 12]) true
  (.cons (.mk none [false] (.slice (some (-12)) none) []) false
  (.cons (.mk none [] (.slice none (some 3)) [.rep1]) true
  (.cons (.mk none [] (.push false (.one (idt "PEEK"))) []) false
  (.cons (.mk none [] (.pushLit (tx "q\\")) []) true
  (.one (.mk (some (tx "_9")) [true] (.ci (tx "Z")) []))))))))))

def grammar : SGrammar :=
  ⟨[tx " top", tx ""],
   [⟨[tx " d1", tx "d2\r x"], tx "r_1", some 95, true, body⟩,
    ⟨[], tx "POPCORN", none, false, .one (idt "r_1")⟩,
    ⟨[tx "x"], tx "r_1", some 33, false, .one (idt "EOI")⟩],
   [tx " tail"]⟩

theorem grammar_wf : grammar.WF := by
  simp [grammar, body, idt, SGrammar.WF, SRule.WF, SExpr.WF, STerm.WF, SNode.WF, WFPost]
  decide +kernel

example : ∃ toks, scan grammar.pretty = .ok toks ∧ kvOf toks = grammar.kv :=
  scan_roundtrip grammar grammar_wf

end RT.Sample

end Front
end Pest
