/-
  Lemmas/OptSoundRun.lean — from one rewritten rule body to `Opt.runStep` and the fold over the
  pass list.
-/
import PestModel.Lemmas.OptSoundPass

set_option linter.unusedVariables false

namespace Pest
namespace OptS

open L0

/-! ### replacing one entry of the rule table -/

theorem find_set_cases (p : Rule → Bool) : ∀ (rules : List Rule) (i : Nat) (h : i < rules.length) (x : Rule),
    p x = p rules[i] →
    (rules.find? p = none ∧ (rules.set i x).find? p = none) ∨
    (∃ r, rules.find? p = some r ∧
      ((rules.set i x).find? p = some r ∨ (r = rules[i] ∧ (rules.set i x).find? p = some x)))
  | [], i, h, _, _ => by simp at h
  | a :: rest, 0, _, x, hp => by
    simp only [List.getElem_cons_zero] at hp
    simp only [List.set_cons_zero, List.find?_cons, hp]
    cases hpa : p a with
    | true => exact Or.inr ⟨a, rfl, Or.inr ⟨rfl, rfl⟩⟩
    | false =>
      simp only []
      cases hf : rest.find? p with
      | none => exact Or.inl ⟨rfl, rfl⟩
      | some r => exact Or.inr ⟨r, rfl, Or.inl rfl⟩
  | a :: rest, i + 1, h, x, hp => by
    simp only [List.getElem_cons_succ] at hp
    simp only [List.set_cons_succ, List.find?_cons, List.getElem_cons_succ]
    cases hpa : p a with
    | true => exact Or.inr ⟨a, rfl, Or.inl rfl⟩
    | false =>
      simp only []
      exact find_set_cases p rest i (by simpa using h) x hp

variable {F : Feat} {sg : String → Option (String × Nat)}

/-- the table `G` with the body of entry `i` replaced -/
def setBody (G : Grammar) (i : Nat) (h : i < G.rules.length) (b' : Expr) : Grammar :=
  { G with rules := G.rules.set i { G.rules[i] with body := b' } }

theorem lookup_setBody (G : Grammar) (i : Nat) (h : i < G.rules.length) (b' : Expr) (name : String) :
    (G.lookup name = none ∧ (setBody G i h b').lookup name = none) ∨
    (∃ r, G.lookup name = some r ∧
      ((setBody G i h b').lookup name = some r ∨
       (r = G.rules[i] ∧ (setBody G i h b').lookup name = some { G.rules[i] with body := b' }))) :=
  find_set_cases (fun r => r.name == name) G.rules i h { G.rules[i] with body := b' } rfl

theorem GR_setBody (G : Grammar) (i : Nat) (h : i < G.rules.length) (b' : Expr)
    (htr : ∀ b, TR F G (ruleAtomic G.rules[i].name G.rules[i].mod b) G.rules[i].body b') :
    GR F G (setBody G i h b') := by
  refine ⟨rfl, fun name => ?_⟩
  rcases lookup_setBody G i h b' name with ⟨h1, h2⟩ | ⟨r, h1, h2 | ⟨h2, h3⟩⟩
  · rw [h1, h2]; trivial
  · rw [h1, h2]; exact ⟨rfl, rfl, fun b => TR.refl F G _ _⟩
  · rw [h1, h3]; subst h2; exact ⟨rfl, rfl, htr⟩

theorem sigOf_setBody (G : Grammar) (i : Nat) (h : i < G.rules.length) (b' : Expr) (name : String) :
    sigOf (setBody G i h b') name = sigOf G name := by
  unfold sigOf
  rcases lookup_setBody G i h b' name with ⟨h1, h2⟩ | ⟨r, h1, h2 | ⟨h2, h3⟩⟩
  · rw [h1, h2]
  · rw [h1, h2]
  · rw [h1, h3]; subst h2; rfl

theorem Inv_setBody {G : Grammar} (hinv : Inv sg G) (i : Nat) (h : i < G.rules.length) (b' : Expr)
    (hb : AllN (NodeOK sg) b') : Inv sg (setBody G i h b') := by
  refine ⟨fun n => by rw [sigOf_setBody, hinv.sig], fun r hr => ?_⟩
  rcases List.mem_or_eq_of_mem_set hr with h1 | h1
  · exact hinv.nodes r h1
  · subst h1; exact hb

/-! ### one pass over one body -/

/-- the passes the theorem covers: the exported default passes, `squash_choice` / `skip` only
    when their semantic lemmas are available -/
def Allowed (F : Feat) (p : Opt.Pass) : Prop :=
  p ∈ Opt.defaultPasses ∧ (p.name = .squashChoice → F.squash = true) ∧ (p.name = .skip → F.skip = true)

theorem runOnce_out {g : Grammar} {rules : List Rule} {p : Opt.Pass} {e e' : Expr}
    (h : Opt.runOnce g rules p e = some e') :
    e' = (if p.postorder then
            Opt.mapBottomUp (fun x => (Opt.applyPass g rules p x).getD (.ident "!KeyError" none)) e
          else Opt.mapTopDown (fun x => (Opt.applyPass g rules p x).getD (.ident "!KeyError" none))
            (Opt.size e + 64) e) := by
  unfold Opt.runOnce at h
  simp only [] at h
  by_cases hk : Opt.runOnce.containsKeyError (if p.postorder then
            Opt.mapBottomUp (fun x => (Opt.applyPass g rules p x).getD (.ident "!KeyError" none)) e
          else Opt.mapTopDown (fun x => (Opt.applyPass g rules p x).getD (.ident "!KeyError" none))
            (Opt.size e + 64) e) = true
  · rw [if_pos hk] at h; exact absurd h (by simp)
  · rw [if_neg hk] at h; simp only [Option.some.injEq] at h; exact h.symm

end OptS
end Pest
