/-
  Lemmas/OptSoundRun.lean — from one rewritten rule body to `Opt.runStep` and the fold over the
  pass list.
-/
import PestModel.Lemmas.OptSoundPass

set_option linter.unusedVariables false

namespace Pest
namespace OptS

open L0

/-! ### replacing one entry of the rule table -/

theorem find_set_cases (p : Rule → Bool) : ∀ (rules : List Rule) (i : Nat) (h : i < rules.length) (x : Rule),
    p x = p rules[i] →
    (rules.find? p = none ∧ (rules.set i x).find? p = none) ∨
    (∃ r, rules.find? p = some r ∧
      ((rules.set i x).find? p = some r ∨ (r = rules[i] ∧ (rules.set i x).find? p = some x)))
  | [], i, h, _, _ => by simp at h
  | a :: rest, 0, _, x, hp => by
    simp only [List.getElem_cons_zero] at hp
    simp only [List.set_cons_zero, List.find?_cons, hp]
    cases hpa : p a with
    | true => exact Or.inr ⟨a, rfl, Or.inr ⟨rfl, rfl⟩⟩
    | false =>
      simp only []
      cases hf : rest.find? p with
      | none => exact Or.inl ⟨rfl, rfl⟩
      | some r => exact Or.inr ⟨r, rfl, Or.inl rfl⟩
  | a :: rest, i + 1, h, x, hp => by
    simp only [List.getElem_cons_succ] at hp
    simp only [List.set_cons_succ, List.find?_cons, List.getElem_cons_succ]
    cases hpa : p a with
    | true => exact Or.inr ⟨a, rfl, Or.inl rfl⟩
    | false =>
      simp only []
      exact find_set_cases p rest i (by simpa using h) x hp

variable {F : Feat} {sg : String → Option (String × Nat)}

/-- the table `G` with the body of entry `i` replaced -/
def setBody (G : Grammar) (i : Nat) (h : i < G.rules.length) (b' : Expr) : Grammar :=
  { G with rules := G.rules.set i { G.rules[i] with body := b' } }

theorem lookup_setBody (G : Grammar) (i : Nat) (h : i < G.rules.length) (b' : Expr) (name : String) :
    (G.lookup name = none ∧ (setBody G i h b').lookup name = none) ∨
    (∃ r, G.lookup name = some r ∧
      ((setBody G i h b').lookup name = some r ∨
       (r = G.rules[i] ∧ (setBody G i h b').lookup name = some { G.rules[i] with body := b' }))) :=
  find_set_cases (fun r => r.name == name) G.rules i h { G.rules[i] with body := b' } rfl

theorem GR_setBody (G : Grammar) (i : Nat) (h : i < G.rules.length) (b' : Expr)
    (htr : ∀ b, TR F G (ruleAtomic G.rules[i].name G.rules[i].mod b) G.rules[i].body b') :
    GR F G (setBody G i h b') := by
  refine ⟨rfl, fun name => ?_⟩
  rcases lookup_setBody G i h b' name with ⟨h1, h2⟩ | ⟨r, h1, h2 | ⟨h2, h3⟩⟩
  · rw [h1, h2]; trivial
  · rw [h1, h2]; exact ⟨rfl, rfl, fun b => TR.refl F G _ _⟩
  · rw [h1, h3]; subst h2; exact ⟨rfl, rfl, htr⟩

theorem sigOf_setBody (G : Grammar) (i : Nat) (h : i < G.rules.length) (b' : Expr) (name : String) :
    sigOf (setBody G i h b') name = sigOf G name := by
  unfold sigOf
  rcases lookup_setBody G i h b' name with ⟨h1, h2⟩ | ⟨r, h1, h2 | ⟨h2, h3⟩⟩
  · rw [h1, h2]
  · rw [h1, h2]
  · rw [h1, h3]; subst h2; rfl

theorem fused_setBody (G : Grammar) (i : Nat) (h : i < G.rules.length) (b' : Expr) :
    (G.fusedSkip = none ∧ (setBody G i h b').fusedSkip = none) ∨
    (∃ r, G.fusedSkip = some r ∧
      ((setBody G i h b').fusedSkip = some r ∨
       (r = G.rules[i] ∧ (setBody G i h b').fusedSkip = some { G.rules[i] with body := b' }))) := by
  have e1 : ∀ (H : Grammar) (x : Option Rule), H.lookup "SKIP" = x →
      H.fusedSkip = (match x with
        | some r => if r.mod == SILENT + ATOMIC then some r else none
        | none => none) := by
    intro H x hx; subst hx; unfold Grammar.fusedSkip; cases H.lookup "SKIP" <;> rfl
  rcases lookup_setBody G i h b' "SKIP" with ⟨h1, h2⟩ | ⟨r, h1, h2 | ⟨h2, h3⟩⟩
  · rw [e1 _ _ h1, e1 _ _ h2]; exact Or.inl ⟨rfl, rfl⟩
  · rw [e1 _ _ h1, e1 _ _ h2]
    by_cases hm : (r.mod == SILENT + ATOMIC) = true
    · exact Or.inr ⟨r, if_pos hm, Or.inl (if_pos hm)⟩
    · exact Or.inl ⟨if_neg hm, if_neg hm⟩
  · rw [e1 _ _ h1, e1 _ _ h3]
    subst h2
    by_cases hm : (G.rules[i].mod == SILENT + ATOMIC) = true
    · exact Or.inr ⟨_, if_pos hm, Or.inr ⟨rfl, if_pos hm⟩⟩
    · exact Or.inl ⟨if_neg hm, if_neg hm⟩

theorem lookup_none_setBody (G : Grammar) (i : Nat) (h : i < G.rules.length) (b' : Expr) (name : String) :
    (setBody G i h b').lookup name = none ↔ G.lookup name = none := by
  rcases lookup_setBody G i h b' name with ⟨h1, h2⟩ | ⟨r, h1, h2 | ⟨h2, h3⟩⟩ <;> simp_all

theorem Inv_setBody {G : Grammar} (hinv : Inv F sg G) (i : Nat) (h : i < G.rules.length) (b' : Expr)
    (hb : AllN (NodeOK sg) b') (ht : totalBody G.rules[i].body = true → totalBody b' = true) :
    Inv F sg (setBody G i h b') := by
  refine ⟨fun n => by rw [sigOf_setBody, hinv.sig], fun r hr => ?_, fun hf => ?_, fun r hr => ?_⟩
  · rcases List.mem_or_eq_of_mem_set hr with h1 | h1
    · exact hinv.nodes r h1
    · subst h1; exact Or.inl hb
  · rw [lookup_none_setBody, lookup_none_setBody]
    apply hinv.fusedTrivia
    rcases fused_setBody G i h b' with ⟨h1, h2⟩ | ⟨r, h1, _⟩
    · exact absurd h2 hf
    · rw [h1]; simp
  · rcases fused_setBody G i h b' with ⟨h1, h2⟩ | ⟨r0, h1, h2 | ⟨h2, h3⟩⟩
    · rw [h2] at hr; exact absurd hr (by simp)
    · rw [h2] at hr; simp only [Option.some.injEq] at hr; subst hr; exact hinv.total _ h1
    · rw [h3] at hr; simp only [Option.some.injEq] at hr; subst hr
      subst h2
      exact ht (hinv.total _ h1)

/-- `_is_atomic`: the body of such a rule only ever runs with implicit trivia switched off -/
theorem isAtomic_flag {G : Grammar} (hinv : Inv F sg G) (r : Rule)
    (h : Opt.isAtomicRule G.rules r = true) :
    (∀ b, ruleAtomic r.name r.mod b = true) ∨ NoTrivia G := by
  unfold Opt.isAtomicRule at h
  by_cases h0 : (!(G.rules.any (·.name == "WHITESPACE")) && !(G.rules.any (·.name == "COMMENT"))) = true
  · right
    simp only [Bool.and_eq_true, Bool.not_eq_true', List.any_eq_false, beq_iff_eq] at h0
    have hw : G.lookup "WHITESPACE" = none := by
      unfold Grammar.lookup
      rw [List.find?_eq_none]
      intro x hx; simpa using h0.1 x hx
    have hc : G.lookup "COMMENT" = none := by
      unfold Grammar.lookup
      rw [List.find?_eq_none]
      intro x hx; simpa using h0.2 x hx
    refine ⟨?_, hw, hc⟩
    cases hf : G.fusedSkip with
    | none => rfl
    | some x => exact absurd ⟨hw, hc⟩ (hinv.fusedTrivia (by rw [hf]; simp))
  · left
    simp only [h0, Bool.false_eq_true, ↓reduceIte, Bool.or_eq_true, beq_iff_eq] at h
    intro b
    unfold ruleAtomic
    rcases h with ((h | h) | h) | h
    · simp [h]
    · simp [h]
    · simp [L1.isTriviaName, h]
    · simp [L1.isTriviaName, h]

/-! ### one pass over one body -/

/-- the passes the theorem covers: the exported default passes, `squash_choice` / `skip` only
    when their semantic lemmas are available -/
def Allowed (F : Feat) (p : Opt.Pass) : Prop :=
  p ∈ Opt.defaultPasses ∧ (p.name = .squashChoice → F.squash = true) ∧ (p.name = .skip → F.skip = true)

theorem runOnce_out {g : Grammar} {rules : List Rule} {p : Opt.Pass} {e e' : Expr}
    (h : Opt.runOnce g rules p e = some e') :
    e' = (if p.postorder then
            Opt.mapBottomUp (fun x => (Opt.applyPass g rules p x).getD (.ident "!KeyError" none)) e
          else Opt.mapTopDown (fun x => (Opt.applyPass g rules p x).getD (.ident "!KeyError" none))
            (Opt.size e + 64) e) := by
  unfold Opt.runOnce at h
  simp only [] at h
  by_cases hk : Opt.runOnce.containsKeyError (if p.postorder then
            Opt.mapBottomUp (fun x => (Opt.applyPass g rules p x).getD (.ident "!KeyError" none)) e
          else Opt.mapTopDown (fun x => (Opt.applyPass g rules p x).getD (.ident "!KeyError" none))
            (Opt.size e + 64) e) = true
  · rw [if_pos hk] at h; exact absurd h (by simp)
  · rw [if_neg hk] at h; simp only [Option.some.injEq] at h; exact h.symm

/-- no pass touches an `OptimizedChoiceRepeat` leaf -/
theorem runOnce_starLeaf {g : Grammar} {rules : List Rule} {p : Opt.Pass} (hp : p ∈ Opt.defaultPasses)
    {alts : List Alt} {b : Expr} (h : Opt.runOnce g rules p (.optChoice alts true) = some b) :
    b = .optChoice alts true := by
  have := runOnce_out h
  subst this
  simp only [Opt.defaultPasses, List.mem_cons, List.not_mem_nil, or_false] at hp
  rcases hp with rfl | rfl | rfl | rfl | rfl <;> rfl

/-- one pass over one body gives a `TR`-related body.  The two matcher passes enter through
    their builder lemmas `hsqB`, `hskB` (OptSoundSquash / OptSoundSkip). -/
theorem runOnce_TR {g G : Grammar} {p : Opt.Pass} (hp : Allowed F p) (hinv : Inv F sg G)
    (hsqB : F.squash = true → ∀ a e, AllN (NodeOK sg) e →
      TR F G a e (Opt.mapBottomUp (Opt.squashChoice g) e))
    (hskB : F.skip = true → ∀ a k e, (a = true ∨ NoTrivia G) → AllN (NodeOK sg) e →
      TR F G a e (Opt.mapTopDown (Opt.skipPass G.rules 200) k e))
    {a : Bool} (ha : p.atomicOnly = true → a = true ∨ NoTrivia G)
    {e e' : Expr} (he : AllN (NodeOK sg) e)
    (h : Opt.runOnce g G.rules p e = some e') : TR F G a e e' := by
  have := runOnce_out h
  subst this
  obtain ⟨hmem, hsq, hsk⟩ := hp
  simp only [Opt.defaultPasses, List.mem_cons, List.not_mem_nil, or_false] at hmem
  rcases hmem with rfl | rfl | rfl | rfl | rfl
  · exact unroll_TR a e he
  · exact hskB (hsk rfl) a _ e (ha rfl) he
  · exact inlineBuiltin_TR a _ e he
  · exact hsqB (hsq rfl) a e he
  · exact inlineSilent_TR hinv.sig a e he

/-! ### `runStep` and the fold over the passes -/

/-- what the two matcher passes have to provide (trivially, when `F` switches them off) -/
structure Builders (F : Feat) (sg : String → Option (String × Nat)) (g : Grammar) : Prop where
  sqSem : F.squash = true → SquashSem
  skSem : F.skip = true → ∀ G, SkipSem G
  sqB : F.squash = true → ∀ G, G.usets = g.usets → Inv F sg G → ∀ a e, AllN (NodeOK sg) e →
    TR F G a e (Opt.mapBottomUp (Opt.squashChoice g) e)
  skB : F.skip = true → ∀ G, Inv F sg G → ∀ a k e, (a = true ∨ NoTrivia G) → AllN (NodeOK sg) e →
    TR F G a e (Opt.mapTopDown (Opt.skipPass G.rules 200) k e)

/-- a property of rule bodies that every rewrite keeps, as long as every body of the table has it
    (used for SOI-freeness; `fun _ => True` otherwise) -/
def Kept (F : Feat) (P : Expr → Prop) : Prop :=
  ∀ (G : Grammar) (a : Bool) (e e' : Expr), TR F G a e e' → (∀ n r, G.lookup n = some r → P r.body) →
    P e → P e'

theorem runStep_sound {g : Grammar} {p : Opt.Pass} (hp : Allowed F p) (B : Builders F sg g)
    {P : Expr → Prop} (hP : Kept F P) :
    ∀ (d i : Nat) (rules rules' : List Rule), rules.length - i = d →
      Inv F sg { g with rules := rules } → (∀ r ∈ rules, P r.body) →
      Opt.runStep g p i rules = some rules' →
      EquivG { g with rules := rules } { g with rules := rules' } ∧ Inv F sg { g with rules := rules' } ∧
        (∀ r ∈ rules', P r.body) := by
  intro d
  induction d with
  | zero =>
    intro i rules rules' hd hinv hpr h
    rw [Opt.runStep] at h
    have : ¬ i < rules.length := by omega
    simp only [this, ↓reduceDIte, Option.some.injEq] at h
    subst h
    exact ⟨EquivG.refl _, hinv, hpr⟩
  | succ d ih =>
    intro i rules rules' hd hinv hpr h
    rw [Opt.runStep] at h
    have hi : i < rules.length := by omega
    simp only [hi, ↓reduceDIte] at h
    by_cases hskip : (rules[i].kind == RuleKind.builtin ||
        (p.atomicOnly && !Opt.isAtomicRule rules rules[i])) = true
    · rw [if_pos hskip] at h
      exact ih (i + 1) rules rules' (by omega) hinv hpr h
    · rw [if_neg hskip] at h
      cases hro : Opt.runOnce g rules p rules[i].body with
      | none => rw [hro] at h; exact absurd h (by simp)
      | some b =>
        rw [hro] at h
        simp only [] at h
        let G : Grammar := { g with rules := rules }
        have hiG : i < G.rules.length := hi
        have hmem : rules[i] ∈ G.rules := List.getElem_mem hi
        rcases hinv.nodes _ hmem with hbody | ⟨_, alts, hleaf⟩
        case inr =>
          -- the fused `OptimizedChoiceRepeat` is a leaf no pass touches
          have hb : b = rules[i].body := by
            rw [hleaf] at hro ⊢
            exact runOnce_starLeaf hp.1 hro
          have hset : rules.set i { rules[i] with body := b } = rules := by
            rw [hb]; exact List.set_getElem_self hi
          rw [hset] at h
          exact ih (i + 1) rules rules' (by omega) hinv hpr h
        have hflag : p.atomicOnly = true → (∀ b0, ruleAtomic rules[i].name rules[i].mod b0 = true) ∨ NoTrivia G := by
          intro hao
          have : Opt.isAtomicRule rules rules[i] = true := by
            simp only [Bool.or_eq_true, Bool.and_eq_true, Bool.not_eq_true', not_or, not_and,
              Bool.not_eq_false] at hskip
            exact hskip.2 hao
          exact isAtomic_flag hinv _ this
        have htr : ∀ b0, TR F G (ruleAtomic rules[i].name rules[i].mod b0) rules[i].body b := by
          intro b0
          refine runOnce_TR (g := g) (G := G) hp hinv (fun hF => B.sqB hF G rfl hinv)
            (fun hF => B.skB hF G hinv) ?_ hbody hro
          intro hao
          rcases hflag hao with h1 | h1
          · exact Or.inl (h1 b0)
          · exact Or.inr h1
        have hgr : GR F G (setBody G i hiG b) := GR_setBody G i hiG b htr
        have heq : EquivG G (setBody G i hiG b) :=
          equivG_of_GR hgr B.sqSem (fun hF => B.skSem hF G)
        have hinv' : Inv F sg (setBody G i hiG b) :=
          Inv_setBody hinv i hiG b ((htr true).allN hinv.sig hinv.lookup_nodes hbody) (htr true).totalBody
        have hpb : P b := hP G _ _ _ (htr true) (fun n r hl => hpr r (lookup_mem hl)) (hpr _ hmem)
        have hpr' : ∀ r ∈ rules.set i { rules[i] with body := b }, P r.body := by
          intro r hr
          rcases List.mem_or_eq_of_mem_set hr with h1 | h1
          · exact hpr r h1
          · subst h1; exact hpb
        have := ih (i + 1) (rules.set i { rules[i] with body := b }) rules' (by simp; omega) hinv' hpr' h
        exact ⟨heq.trans this.1, this.2⟩

theorem passes_sound {g : Grammar} (B : Builders F sg g) {P : Expr → Prop} (hP : Kept F P) :
    ∀ (passes : List Opt.Pass), (∀ p ∈ passes, Allowed F p) → ∀ (rules rules' : List Rule),
      Inv F sg { g with rules := rules } → (∀ r ∈ rules, P r.body) →
      passes.foldl (fun acc p => acc.bind fun rs => Opt.runStep g p 0 rs) (some rules) = some rules' →
      EquivG { g with rules := rules } { g with rules := rules' } ∧ Inv F sg { g with rules := rules' } ∧
        (∀ r ∈ rules', P r.body) := by
  intro passes
  induction passes with
  | nil =>
    intro _ rules rules' hinv hpr h
    simp only [List.foldl_nil, Option.some.injEq] at h
    subst h
    exact ⟨EquivG.refl _, hinv, hpr⟩
  | cons p rest ih =>
    intro hp rules rules' hinv hpr h
    simp only [List.foldl_cons, Option.bind_some] at h
    cases h1 : Opt.runStep g p 0 rules with
    | none =>
      rw [h1] at h
      have : ∀ (l : List Opt.Pass),
          l.foldl (fun acc p => acc.bind fun rs => Opt.runStep g p 0 rs) (none : Option (List Rule)) = none := by
        intro l; induction l with
        | nil => rfl
        | cons _ _ ih => simpa using ih
      rw [this] at h
      exact absurd h (by simp)
    | some rules1 =>
      rw [h1] at h
      have s1 := runStep_sound (hp p (by simp)) B hP _ 0 rules rules1 rfl hinv hpr h1
      have s2 := ih (fun q hq => hp q (by simp [hq])) rules1 rules' s1.2.1 s1.2.2 h
      exact ⟨s1.1.trans s2.1, s2.2⟩

end OptS
end Pest
