/-
  Lemmas/OptSoundRun.lean — from one rewritten rule body to `Opt.runStep` and the fold over the
  pass list.
-/
import PestModel.Lemmas.OptSoundPass

set_option linter.unusedVariables false

namespace Pest
namespace OptS

open L0

/-! ### replacing one entry of the rule table -/

theorem find_set_cases (p : Rule → Bool) : ∀ (rules : List Rule) (i : Nat) (h : i < rules.length) (x : Rule),
    p x = p rules[i] →
    (rules.find? p = none ∧ (rules.set i x).find? p = none) ∨
    (∃ r, rules.find? p = some r ∧
      ((rules.set i x).find? p = some r ∨ (r = rules[i] ∧ (rules.set i x).find? p = some x)))
  | [], i, h, _, _ => by simp at h
  | a :: rest, 0, _, x, hp => by
    simp only [List.getElem_cons_zero] at hp
    simp only [List.set_cons_zero, List.find?_cons, hp]
    cases hpa : p a with
    | true => exact Or.inr ⟨a, rfl, Or.inr ⟨rfl, rfl⟩⟩
    | false =>
      simp only []
      cases hf : rest.find? p with
      | none => exact Or.inl ⟨rfl, rfl⟩
      | some r => exact Or.inr ⟨r, rfl, Or.inl rfl⟩
  | a :: rest, i + 1, h, x, hp => by
    simp only [List.getElem_cons_succ] at hp
    simp only [List.set_cons_succ, List.find?_cons, List.getElem_cons_succ]
    cases hpa : p a with
    | true => exact Or.inr ⟨a, rfl, Or.inl rfl⟩
    | false =>
      simp only []
      exact find_set_cases p rest i (by simpa using h) x hp

variable {F : Feat} {sg : String → Option (String × Nat)}

/-- the table `G` with the body of entry `i` replaced -/
def setBody (G : Grammar) (i : Nat) (h : i < G.rules.length) (b' : Expr) : Grammar :=
  { G with rules := G.rules.set i { G.rules[i] with body := b' } }

theorem lookup_setBody (G : Grammar) (i : Nat) (h : i < G.rules.length) (b' : Expr) (name : String) :
    (G.lookup name = none ∧ (setBody G i h b').lookup name = none) ∨
    (∃ r, G.lookup name = some r ∧
      ((setBody G i h b').lookup name = some r ∨
       (r = G.rules[i] ∧ (setBody G i h b').lookup name = some { G.rules[i] with body := b' }))) :=
  find_set_cases (fun r => r.name == name) G.rules i h { G.rules[i] with body := b' } rfl

theorem GR_setBody (G : Grammar) (i : Nat) (h : i < G.rules.length) (b' : Expr)
    (htr : ∀ b, TR F G (ruleAtomic G.rules[i].name G.rules[i].mod b) G.rules[i].body b') :
    GR F G (setBody G i h b') := by
  refine ⟨rfl, fun name => ?_⟩
  rcases lookup_setBody G i h b' name with ⟨h1, h2⟩ | ⟨r, h1, h2 | ⟨h2, h3⟩⟩
  · rw [h1, h2]; trivial
  · rw [h1, h2]; exact ⟨rfl, rfl, fun b => TR.refl F G _ _⟩
  · rw [h1, h3]; subst h2; exact ⟨rfl, rfl, htr⟩

theorem sigOf_setBody (G : Grammar) (i : Nat) (h : i < G.rules.length) (b' : Expr) (name : String) :
    sigOf (setBody G i h b') name = sigOf G name := by
  unfold sigOf
  rcases lookup_setBody G i h b' name with ⟨h1, h2⟩ | ⟨r, h1, h2 | ⟨h2, h3⟩⟩
  · rw [h1, h2]
  · rw [h1, h2]
  · rw [h1, h3]; subst h2; rfl

theorem fused_setBody (G : Grammar) (i : Nat) (h : i < G.rules.length) (b' : Expr) :
    (G.fusedSkip = none ∧ (setBody G i h b').fusedSkip = none) ∨
    (∃ r, G.fusedSkip = some r ∧
      ((setBody G i h b').fusedSkip = some r ∨
       (r = G.rules[i] ∧ (setBody G i h b').fusedSkip = some { G.rules[i] with body := b' }))) := by
  have e1 : ∀ (H : Grammar) (x : Option Rule), H.lookup "SKIP" = x →
      H.fusedSkip = (match x with
        | some r => if r.mod == SILENT + ATOMIC then some r else none
        | none => none) := by
    intro H x hx; subst hx; unfold Grammar.fusedSkip; cases H.lookup "SKIP" <;> rfl
  rcases lookup_setBody G i h b' "SKIP" with ⟨h1, h2⟩ | ⟨r, h1, h2 | ⟨h2, h3⟩⟩
  · rw [e1 _ _ h1, e1 _ _ h2]; exact Or.inl ⟨rfl, rfl⟩
  · rw [e1 _ _ h1, e1 _ _ h2]
    by_cases hm : (r.mod == SILENT + ATOMIC) = true
    · exact Or.inr ⟨r, if_pos hm, Or.inl (if_pos hm)⟩
    · exact Or.inl ⟨if_neg hm, if_neg hm⟩
  · rw [e1 _ _ h1, e1 _ _ h3]
    subst h2
    by_cases hm : (G.rules[i].mod == SILENT + ATOMIC) = true
    · exact Or.inr ⟨_, if_pos hm, Or.inr ⟨rfl, if_pos hm⟩⟩
    · exact Or.inl ⟨if_neg hm, if_neg hm⟩

theorem lookup_none_setBody (G : Grammar) (i : Nat) (h : i < G.rules.length) (b' : Expr) (name : String) :
    (setBody G i h b').lookup name = none ↔ G.lookup name = none := by
  rcases lookup_setBody G i h b' name with ⟨h1, h2⟩ | ⟨r, h1, h2 | ⟨h2, h3⟩⟩ <;> simp_all

theorem Inv_setBody {G : Grammar} (hinv : Inv F sg G) (i : Nat) (h : i < G.rules.length) (b' : Expr)
    (hb : AllN (NodeOK sg) b') (ht : totalBody G.rules[i].body = true → totalBody b' = true)
    (hnp : F.skip = true → ∀ r ∈ (setBody G i h b').rules, AllN (NotPOK (setBody G i h b')) r.body) :
    Inv F sg (setBody G i h b') := by
  refine ⟨fun n => by rw [sigOf_setBody, hinv.sig], fun r hr => ?_, fun r hr hn => ?_, fun hf => ?_,
    fun r hr => ?_, hnp⟩
  · rcases List.mem_or_eq_of_mem_set hr with h1 | h1
    · exact hinv.nodes r h1
    · subst h1; exact hb
  · rcases List.mem_or_eq_of_mem_set hr with h1 | h1
    · exact hinv.skipMod r h1 hn
    · subst h1; exact hinv.skipMod G.rules[i] (List.getElem_mem h) hn
  · rw [lookup_none_setBody, lookup_none_setBody]
    apply hinv.fusedTrivia
    rcases fused_setBody G i h b' with ⟨h1, h2⟩ | ⟨r, h1, _⟩
    · exact absurd h2 hf
    · rw [h1]; simp
  · rcases fused_setBody G i h b' with ⟨h1, h2⟩ | ⟨r0, h1, h2 | ⟨h2, h3⟩⟩
    · rw [h2] at hr; exact absurd hr (by simp)
    · rw [h2] at hr; simp only [Option.some.injEq] at hr; subst hr; exact hinv.total _ h1
    · rw [h3] at hr; simp only [Option.some.injEq] at hr; subst hr
      subst h2
      exact ht (hinv.total _ h1)

/-- `_is_atomic`: the body of such a rule only ever runs with implicit trivia switched off -/
theorem isAtomic_flag {G : Grammar} (hinv : Inv F sg G) (r : Rule) (hr : r ∈ G.rules)
    (h : Opt.isAtomicRule G.rules r = true) :
    (∀ b, ruleAtomic r.name r.mod b = true) ∨ NoTrivia G := by
  unfold Opt.isAtomicRule at h
  by_cases h0 : (!(G.rules.any (·.name == "WHITESPACE")) && !(G.rules.any (·.name == "COMMENT"))) = true
  · right
    simp only [Bool.and_eq_true, Bool.not_eq_true', List.any_eq_false, beq_iff_eq] at h0
    have hw : G.lookup "WHITESPACE" = none := by
      unfold Grammar.lookup
      rw [List.find?_eq_none]
      intro x hx; simpa using h0.1 x hx
    have hc : G.lookup "COMMENT" = none := by
      unfold Grammar.lookup
      rw [List.find?_eq_none]
      intro x hx; simpa using h0.2 x hx
    refine ⟨?_, hw, hc⟩
    cases hf : G.fusedSkip with
    | none => rfl
    | some x => exact absurd ⟨hw, hc⟩ (hinv.fusedTrivia (by rw [hf]; simp))
  · left
    simp only [h0, Bool.false_eq_true, ↓reduceIte, Bool.or_eq_true, beq_iff_eq] at h
    intro b
    unfold ruleAtomic
    rcases h with (((h | h) | h) | h) | h
    · simp [h]
    · simp [h]
    · simp [L1.isTriviaName, h]
    · simp [L1.isTriviaName, h]
    · simp [hinv.skipMod r hr h]

/-! ### one pass over one body -/

/-- the passes the theorem covers: the exported default passes, `squash_choice` / `skip` only
    when their semantic lemmas are available -/
def Allowed (F : Feat) (p : Opt.Pass) : Prop :=
  p ∈ Opt.defaultPasses ∧ (p.name = .squashChoice → F.squash = true) ∧ (p.name = .skip → F.skip = true)

theorem runOnce_out {g : Grammar} {rules : List Rule} {p : Opt.Pass} {e e' : Expr}
    (h : Opt.runOnce g rules p e = some e') :
    e' = (if p.postorder then
            Opt.mapBottomUp (fun x => (Opt.applyPass g rules p x).getD (.ident "!KeyError" none)) e
          else Opt.mapTopDown (fun x => (Opt.applyPass g rules p x).getD (.ident "!KeyError" none))
            (Opt.size e + 64) e) := by
  unfold Opt.runOnce at h
  simp only [] at h
  by_cases hk : Opt.runOnce.containsKeyError (if p.postorder then
            Opt.mapBottomUp (fun x => (Opt.applyPass g rules p x).getD (.ident "!KeyError" none)) e
          else Opt.mapTopDown (fun x => (Opt.applyPass g rules p x).getD (.ident "!KeyError" none))
            (Opt.size e + 64) e) = true
  · rw [if_pos hk] at h; exact absurd h (by simp)
  · rw [if_neg hk] at h; simp only [Option.some.injEq] at h; exact h.symm

/-- one pass over one body gives a `TR`-related body.  The two matcher passes enter through
    their builder lemmas `hsqB`, `hskB` (OptSoundSquash / OptSoundSkip). -/
theorem runOnce_TR {g G : Grammar} {p : Opt.Pass} (hp : Allowed F p) (hinv : Inv F sg G)
    (hsqB : F.squash = true → ∀ a e, AllN (NodeOK sg) e → TR F G a e (Opt.mapBottomUp (Opt.squashChoice g) e))
    (hskB : F.skip = true → ∀ a k e, (a = true ∨ NoTrivia G) → AllN (NodeOK sg) e → AllN (NotPOK G) e →
      TR F G a e (Opt.mapTopDown (Opt.skipPass G.rules 200) k e))
    {a : Bool} (ha : p.atomicOnly = true → a = true ∨ NoTrivia G)
    {e e' : Expr} (he : AllN (NodeOK sg) e) (hk : F.skip = true → AllN (NotPOK G) e)
    (h : Opt.runOnce g G.rules p e = some e') : TR F G a e e' := by
  have := runOnce_out h
  subst this
  obtain ⟨hmem, hsq, hsk⟩ := hp
  simp only [Opt.defaultPasses, List.mem_cons, List.not_mem_nil, or_false] at hmem
  rcases hmem with rfl | rfl | rfl | rfl | rfl
  · exact unroll_TR a e he
  · exact hskB (hsk rfl) a _ e (ha rfl) he (hk (hsk rfl))
  · exact inlineBuiltin_TR a _ e he
  · exact hsqB (hsq rfl) a e he
  · exact inlineSilent_TR hinv a e he

end OptS
end Pest
