/-
  Lemmas/OptSoundKeepsAll.lean — the corollaries of Props/AllModes.lean that become free of
  hypotheses on the optimized table `g'`, by Lemmas/OptSoundKeeps.lean:

  * `opt_parse_total'`   both `L1.parse g'` and `LG.parse g'` answer `.done` from some fuel on, from
                         `GenShape g` and `callable g start` (instead of `GenShape g'`, `callable g' start`)
  * `opt_interp_tags'`, `opt_gen_tags'`   the tags of a run on `g'` are tags written in `g`
-/
import PestModel.Lemmas.OptSoundKeeps
import PestModel.Props.AllModes

namespace Pest
namespace AllModes

open L0 OptS

variable {g g' : Grammar} {passes : List Opt.Pass}

/-- **C07 for both optimized modes, hypotheses on the original grammar only.** -/
theorem opt_parse_total' (hwf : OptS.WF g) (hp : ∀ p ∈ passes, p ∈ Opt.defaultPasses)
    (h : Opt.optimize g passes = some g') (hwfg : Pest.WF.wellFormed g = true)
    (hg : C07.GenShape g) (inp : Input) (start : String)
    (hst : C07.callable g start = true) (k : Nat) (hk : k ≤ inp.size) :
    ∃ n, ∀ fuel, n ≤ fuel →
      (∃ m c ps, L1.parse g' inp fuel start k = .done m c ps) ∧
      (∃ m c ps, LG.parse g' inp fuel start k = .done m c ps) := by
  have hs : g.lookup start ≠ none := by
    have := C07.callable_isSome hst
    intro e; rw [e] at this; cases this
  exact opt_parse_total hwf hp h hwfg (optimizer_keeps_genShape hwf hp h hg) inp start hs
    (optimizer_keeps_callable h start hst) k hk

/-- **Tags, against the original grammar** (interpreter on the optimized table; any verdict, any
    start position): every tag on every pair at every depth is a tag written in `g` -/
theorem opt_interp_tags' (hwf : OptS.WF g) (hp : ∀ p ∈ passes, p ∈ Opt.defaultPasses)
    (h : Opt.optimize g passes = some g') (inp : Input) (fuel : Nat) (start : String) (k : Nat)
    (c : PState) (m : Bool) (ps : List Pair) (hr : L1.parse g' inp fuel start k = .done m c ps) :
    AllPairs (fun p => ∀ t, p.tag = some t → C06.GTagOK g t) ps :=
  (C06.interp_tags g' inp fuel start k c m ps hr).mono
    fun p hp' t ht => optimizer_keeps_tags hwf hp h t (hp' t ht)

/-- the same for code generated from the optimized table -/
theorem opt_gen_tags' (hwf : OptS.WF g) (hp : ∀ p ∈ passes, p ∈ Opt.defaultPasses)
    (h : Opt.optimize g passes = some g') (inp : Input) (fuel : Nat) (start : String) (k : Nat)
    (cg : PState) (ps : List Pair) (hr : LG.parse g' inp fuel start k = .done true cg ps)
    (hk : k ≤ inp.size) :
    AllPairs (fun p => ∀ t, p.tag = some t → C06.GTagOK g t) ps :=
  (C06.gen_tags g' inp (C02.optimized_skip_total g g' passes hp hwf h) fuel start k cg ps hr hk).mono
    fun p hp' t ht => optimizer_keeps_tags hwf hp h t (hp' t ht)

end AllModes
end Pest
