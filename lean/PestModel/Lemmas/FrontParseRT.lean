/-
  Lemmas/FrontParseRT.lean — the parser half of the C10 round trip: the grammar parser of
  Front/Parse.lean, run on any token list whose kinds and values are those of a source-level AST
  (Front/Ast.lean `…​.kv`; the tokens' `start` fields are arbitrary), returns what the AST
  denotes (`…​.den`).  Statements only about `parseExpression`/`parseRules`/`parseTokens`;
  the scanner half is Lemmas/FrontScanRT.lean.
-/
import PestModel.Front.Ast
import PestModel.Props.C12Escapes
import PestModel.Lemmas.FrontStrip

namespace Pest
namespace Front
namespace PRT

/-- kinds and values of a token list -/
def tokKV (toks : List Token) : List KV := toks.map fun t => (t.kind, t.value)

@[simp] theorem tokKV_nil : tokKV [] = [] := rfl
@[simp] theorem tokKV_cons (t : Token) (ts : List Token) : tokKV (t :: ts) = (t.kind, t.value) :: tokKV ts := rfl
theorem tokKV_length (ts : List Token) : (tokKV ts).length = ts.length := by simp [tokKV]

/-- a token list whose kv sequence starts with `kv` -/
theorem tokKV_cons_inv {ts : List Token} {kv : KV} {K : List KV} (h : tokKV ts = kv :: K) :
    ∃ t ts', ts = t :: ts' ∧ t.kind = kv.1 ∧ t.value = kv.2 ∧ tokKV ts' = K := by
  cases ts with
  | nil => simp at h
  | cons t ts' =>
    simp only [tokKV_cons, List.cons.injEq] at h
    exact ⟨t, ts', rfl, by rw [← h.1], by rw [← h.1], h.2⟩

/-! ### the `P` monad -/

@[simp] theorem bind_eq {α β} (m : P α) (f : α → P β) (eof : Token) (ts : List Token) :
    (m >>= f) eof ts =
      match m eof ts with
      | .ok a ts' => f a eof ts'
      | .err k t => .err k t
      | .exc n => .exc n
      | .oof => .oof := rfl

@[simp] theorem pure_eq {α} (a : α) (eof : Token) (ts : List Token) : (pure a : P α) eof ts = .ok a ts := rfl

@[simp] theorem current_cons (eof t : Token) (ts : List Token) : current eof (t :: ts) = .ok t (t :: ts) := rfl
@[simp] theorem next_cons (eof t : Token) (ts : List Token) : next eof (t :: ts) = .ok t ts := rfl
@[simp] theorem advance_cons (eof t : Token) (ts : List Token) : advance eof (t :: ts) = .ok () ts := rfl

theorem eat_cons {kind : TK} {eof t : Token} {ts : List Token} (h : t.kind = kind) :
    eat kind eof (t :: ts) = .ok t ts := by
  simp [eat, h]

/-! ### decimal numbers -/

theorem foldl_digits (ds : List Nat) (a : Nat) :
    ds.foldl (fun acc d => 10 * acc + (d - 48)) a = a * 10 ^ ds.length + digitsVal ds := by
  induction ds generalizing a with
  | nil => simp [digitsVal]
  | cons d r ih =>
    simp only [List.foldl_cons, digitsVal, List.length_cons]
    rw [ih, ih (10 * 0 + (d - 48))]
    simp only [Nat.pow_succ, Nat.mul_zero, Nat.zero_add]
    rw [Nat.add_mul, Nat.add_assoc]
    congr 1
    rw [Nat.mul_comm 10 a, Nat.mul_assoc, Nat.mul_comm 10]

theorem digitsVal_cons (d : Nat) (r : List Nat) :
    digitsVal (d :: r) = (d - 48) * 10 ^ r.length + digitsVal r := by
  have := foldl_digits r (10 * 0 + (d - 48))
  simp only [Nat.mul_zero, Nat.zero_add] at this
  simpa [digitsVal] using this

theorem natDigitsAux_spec : ∀ (fuel n : Nat) (acc : List Nat), n < fuel →
    (∀ d ∈ acc, isDigit d = true) →
    (∀ d ∈ natDigitsAux fuel n acc, isDigit d = true) ∧
    natDigitsAux fuel n acc ≠ [] ∧
    digitsVal (natDigitsAux fuel n acc) = n * 10 ^ acc.length + digitsVal acc ∧
    (0 < n → ∃ d r, natDigitsAux fuel n acc = d :: r ∧ 49 ≤ d ∧ d ≤ 57) ∧
    (∀ k, 0 < k → n < 10 ^ k → (natDigitsAux fuel n acc).length ≤ k + acc.length) := by
  intro fuel
  induction fuel with
  | zero => intro n acc h; omega
  | succ fuel ih =>
    intro n acc hlt hacc
    unfold natDigitsAux
    by_cases hn : n < 10
    · simp only [hn, if_true]
      refine ⟨?_, by simp, ?_, ?_, ?_⟩
      · intro d hd
        rcases List.mem_cons.mp hd with rfl | hd
        · simp [isDigit]; omega
        · exact hacc d hd
      · rw [digitsVal_cons]; congr 1; congr 1; omega
      · intro h0; exact ⟨48 + n, acc, rfl, by omega, by omega⟩
      · intro k hk _; simp; omega
    · simp only [hn, if_false]
      have hdiv : n / 10 < fuel := by omega
      have hacc' : ∀ d ∈ (48 + n % 10) :: acc, isDigit d = true := by
        intro d hd
        rcases List.mem_cons.mp hd with rfl | hd
        · simp [isDigit]; omega
        · exact hacc d hd
      obtain ⟨h1, h2, h3, h4, h5⟩ := ih (n / 10) ((48 + n % 10) :: acc) hdiv hacc'
      refine ⟨h1, h2, ?_, ?_, ?_⟩
      · rw [h3, digitsVal_cons]
        simp only [List.length_cons, Nat.pow_succ]
        have : 48 + n % 10 - 48 = n % 10 := by omega
        rw [this, ← Nat.add_assoc]
        congr 1
        have hn' : n = 10 * (n / 10) + n % 10 := (Nat.div_add_mod n 10).symm
        conv => rhs; rw [hn']
        rw [Nat.add_mul, Nat.mul_comm (10 ^ acc.length) 10, ← Nat.mul_assoc, Nat.mul_comm (n / 10) 10]
      · intro _; exact h4 (by omega)
      · intro k hk hnk
        cases k with
        | zero => omega
        | succ k =>
          have hk0 : 0 < k := by
            rcases Nat.eq_zero_or_pos k with rfl | h
            · simp at hnk; omega
            · exact h
          have : n / 10 < 10 ^ k := by
            rw [Nat.pow_succ] at hnk
            exact Nat.div_lt_of_lt_mul (by rw [Nat.mul_comm]; exact hnk)
          have := h5 k hk0 this
          simp only [List.length_cons] at this
          omega

theorem natDigits_digits (n : Nat) : ∀ d ∈ natDigits n, isDigit d = true :=
  (natDigitsAux_spec (n + 1) n [] (by omega) (by simp)).1

theorem natDigits_ne_nil (n : Nat) : natDigits n ≠ [] :=
  (natDigitsAux_spec (n + 1) n [] (by omega) (by simp)).2.1

theorem natDigits_val (n : Nat) : digitsVal (natDigits n) = n := by
  have := (natDigitsAux_spec (n + 1) n [] (by omega) (by simp)).2.2.1
  simpa [digitsVal, natDigits] using this

theorem natDigits_length {n : Nat} (h : n ≤ 4294967295) : (natDigits n).length ≤ 10 := by
  have := (natDigitsAux_spec (n + 1) n [] (by omega) (by simp)).2.2.2.2 10 (by omega) (by omega)
  simpa [natDigits] using this

theorem natDigits_all (n : Nat) : (natDigits n).all isDigit = true :=
  List.all_eq_true.mpr (natDigits_digits n)

theorem natDigits_head {n : Nat} (h : 0 < n) : ∃ d r, natDigits n = d :: r ∧ 49 ≤ d ∧ d ≤ 57 :=
  (natDigitsAux_spec (n + 1) n [] (by omega) (by simp)).2.2.2.1 h

theorem pyInt_of_digits {ds : List Nat} (hne : ds ≠ []) (hall : ds.all isDigit = true)
    (hlen : ds.length ≤ 4300) : pyInt ds = some (some (digitsVal ds : Int)) := by
  cases ds with
  | nil => exact absurd rfl hne
  | cons d r =>
    have hd : d ≠ 45 := by
      have : isDigit d = true := by simp at hall; exact hall.1
      simp [isDigit] at this; omega
    unfold pyInt
    split
    · rename_i neg ds' heq
      split at heq
      · rename_i r' h; simp at h; exact absurd h.1 hd
      · simp at heq
        obtain ⟨rfl, rfl⟩ := heq
        simp at hlen
        simp [hall]; omega

/-- `int(token.value)` on a printed natural number -/
theorem pyInt_natDigits {n : Nat} (h : n ≤ 4294967295) : pyInt (natDigits n) = some (some (n : Int)) := by
  rw [pyInt_of_digits (natDigits_ne_nil n) (natDigits_all n) (by have := natDigits_length h; omega),
    natDigits_val]

theorem pyInt_neg_digits {ds : List Nat} (hne : ds ≠ []) (hall : ds.all isDigit = true)
    (hlen : ds.length ≤ 4300) : pyInt (45 :: ds) = some (some (-(digitsVal ds : Int))) := by
  unfold pyInt
  simp only
  cases ds with
  | nil => exact absurd rfl hne
  | cons d r =>
    simp at hlen
    simp [hall]; omega

/-- `int(token.value)` on a printed integer -/
theorem pyInt_intDigits {i : Int} (h : i.natAbs ≤ 4294967295) : pyInt (intDigits i) = some (some i) := by
  unfold intDigits
  by_cases hi : i < 0
  · simp only [hi, if_true]
    rw [pyInt_neg_digits (natDigits_ne_nil _) (natDigits_all _) (by have := natDigits_length h; omega),
      natDigits_val]
    congr 2; omega
  · simp only [hi, if_false]
    have : i.toNat ≤ 4294967295 := by omega
    rw [pyInt_natDigits this]
    congr 2; omega

/-! ### numbers in tokens -/

theorem natDigits_canonical (n : Nat) : Canonical (natDigits n) := by
  rcases Nat.eq_zero_or_pos n with rfl | h
  · exact .inl rfl
  · obtain ⟨d, r, e, h1, h2⟩ := natDigits_head h
    have := natDigits_digits n
    rw [e] at this ⊢
    exact .inr ⟨d, r, rfl, h1, h2, fun c hc => this c (by simp [hc])⟩

theorem stripZeros_natDigits (n : Nat) : stripZeros (natDigits n) = natDigits n :=
  stripZeros_of_canonical (natDigits_canonical n)

/-- the printed numerals have no superfluous zeros: `parse_int` hands them to `int()` as they are -/
theorem intLiteral_natDigits (n : Nat) : intLiteral (natDigits n) = natDigits n := by
  rw [intLiteral_pos (head_ne_minus_of_digits (natDigits_digits n)), stripZeros_natDigits]

theorem intLiteral_intDigits (i : Int) : intLiteral (intDigits i) = intDigits i := by
  unfold intDigits
  by_cases hi : i < 0
  · simp only [hi, if_true]
    rw [intLiteral_neg, stripZeros_natDigits]
  · simp only [hi, if_false]
    exact intLiteral_natDigits _

theorem parseInt_nat {t : Token} {n : Nat} (hv : t.value = natDigits n) (h : n ≤ 4294967295)
    (eof : Token) (ts : List Token) : parseInt t eof ts = .ok (n : Int) ts := by
  simp [parseInt, hv, intLiteral_natDigits, pyInt_natDigits h]

theorem parseInt_int {t : Token} {i : Int} (hv : t.value = intDigits i) (h : i.natAbs ≤ 4294967295)
    (eof : Token) (ts : List Token) : parseInt t eof ts = .ok i ts := by
  simp [parseInt, hv, intLiteral_intDigits, pyInt_intDigits h]

theorem parseNumber_nat {t : Token} {n : Nat} (hv : t.value = natDigits n) (h : n ≤ 4294967295)
    (eof : Token) (ts : List Token) : parseNumber t eof ts = .ok (n : Int) ts := by
  have hl := natDigits_length h
  have : ¬ ((n : Int) > MAX_REPEAT) := by simp [MAX_REPEAT]; omega
  simp only [parseNumber, hv, stripZeros_natDigits, pyInt_natDigits h]
  rw [if_neg (by omega)]
  simp [this]

/-! ### what may follow -/

/-- the next token is an infix operator or closes a group / a rule: what follows a term -/
def TermEnd (K : List KV) : Prop :=
  ∃ k v K', K = (k, v) :: K' ∧ (k = .sequenceOp ∨ k = .choiceOp ∨ k = .rbrace ∨ k = .rparen)

/-- the next token closes a group / a rule: what follows an expression -/
def Closer (K : List KV) : Prop :=
  ∃ k v K', K = (k, v) :: K' ∧ (k = .rbrace ∨ k = .rparen)

theorem Closer.termEnd {K : List KV} (h : Closer K) : TermEnd K := by
  obtain ⟨k, v, K', rfl, h⟩ := h
  exact ⟨k, v, K', rfl, by rcases h with h | h <;> simp [h]⟩

/-! ### postfix operators -/

theorem parsePostfix_one (e : Expr) (p : Post) (hp : WFPost p) (eof : Token) (ts : List Token)
    (K : List KV) (h : tokKV ts = postKV p ++ K) :
    ∃ ts', parsePostfix e eof ts = .ok (some (applyPost e p)) ts' ∧ tokKV ts' = K := by
  cases p with
  | opt =>
    simp only [postKV, List.cons_append, List.nil_append] at h
    obtain ⟨t1, ts1, rfl, hk1, -, h⟩ := tokKV_cons_inv h
    exact ⟨ts1, by simp [parsePostfix, hk1, applyPost], h⟩
  | rep =>
    simp only [postKV, List.cons_append, List.nil_append] at h
    obtain ⟨t1, ts1, rfl, hk1, -, h⟩ := tokKV_cons_inv h
    exact ⟨ts1, by simp [parsePostfix, hk1, applyPost], h⟩
  | rep1 =>
    simp only [postKV, List.cons_append, List.nil_append] at h
    obtain ⟨t1, ts1, rfl, hk1, -, h⟩ := tokKV_cons_inv h
    exact ⟨ts1, by simp [parsePostfix, hk1, applyPost], h⟩
  | exact n =>
    simp only [postKV, List.cons_append, List.nil_append] at h
    obtain ⟨t1, ts1, rfl, hk1, -, h⟩ := tokKV_cons_inv h
    obtain ⟨t2, ts2, rfl, hk2, hv2, h⟩ := tokKV_cons_inv h
    obtain ⟨t3, ts3, rfl, hk3, -, h⟩ := tokKV_cons_inv h
    simp only at hk1 hk2 hk3 hv2
    exact ⟨ts3, by simp [parsePostfix, parseRepeat, hk1, hk2, hk3, parseNumber_nat hv2 hp, applyPost], h⟩
  | min n =>
    simp only [postKV, List.cons_append, List.nil_append] at h
    obtain ⟨t1, ts1, rfl, hk1, -, h⟩ := tokKV_cons_inv h
    obtain ⟨t2, ts2, rfl, hk2, hv2, h⟩ := tokKV_cons_inv h
    obtain ⟨t3, ts3, rfl, hk3, -, h⟩ := tokKV_cons_inv h
    obtain ⟨t4, ts4, rfl, hk4, -, h⟩ := tokKV_cons_inv h
    simp only at hk1 hk2 hk3 hk4 hv2
    exact ⟨ts4, by simp [parsePostfix, parseRepeat, eat, hk1, hk2, hk3, hk4, parseNumber_nat hv2 hp, applyPost], h⟩
  | max n =>
    simp only [postKV, List.cons_append, List.nil_append] at h
    obtain ⟨t1, ts1, rfl, hk1, -, h⟩ := tokKV_cons_inv h
    obtain ⟨t2, ts2, rfl, hk2, -, h⟩ := tokKV_cons_inv h
    obtain ⟨t3, ts3, rfl, hk3, hv3, h⟩ := tokKV_cons_inv h
    obtain ⟨t4, ts4, rfl, hk4, -, h⟩ := tokKV_cons_inv h
    simp only at hk1 hk2 hk3 hk4 hv3
    exact ⟨ts4, by simp [parsePostfix, parseRepeat, eat, hk1, hk2, hk3, hk4, parseNumber_nat hv3 hp, applyPost], h⟩
  | minmax m n =>
    simp only [postKV, List.cons_append, List.nil_append] at h
    obtain ⟨t1, ts1, rfl, hk1, -, h⟩ := tokKV_cons_inv h
    obtain ⟨t2, ts2, rfl, hk2, hv2, h⟩ := tokKV_cons_inv h
    obtain ⟨t3, ts3, rfl, hk3, -, h⟩ := tokKV_cons_inv h
    obtain ⟨t4, ts4, rfl, hk4, hv4, h⟩ := tokKV_cons_inv h
    obtain ⟨t5, ts5, rfl, hk5, -, h⟩ := tokKV_cons_inv h
    simp only at hk1 hk2 hk3 hk4 hk5 hv2 hv4
    exact ⟨ts5, by simp [parsePostfix, parseRepeat, eat, hk1, hk2, hk3, hk4, hk5, parseNumber_nat hv2 hp.1,
      parseNumber_nat hv4 hp.2, applyPost], h⟩

theorem parsePostfix_none (e : Expr) (eof : Token) (ts : List Token) (h : TermEnd (tokKV ts)) :
    parsePostfix e eof ts = .ok none ts := by
  obtain ⟨k, v, K', hK, hk⟩ := h
  obtain ⟨t1, ts1, rfl, hk1, -, -⟩ := tokKV_cons_inv hK
  simp only at hk1
  rcases hk with rfl | rfl | rfl | rfl <;> simp [parsePostfix, hk1]

theorem postKV_length_pos (p : Post) : 0 < (postKV p).length := by cases p <;> simp [postKV]

theorem postfixes_all : ∀ (posts : List Post) (n : Nat) (e : Expr) (eof : Token) (ts : List Token)
    (K : List KV), (∀ p ∈ posts, WFPost p) → posts.length < n →
    tokKV ts = (posts.map postKV).flatten ++ K → TermEnd K →
    ∃ ts', postfixes n e eof ts = .ok (posts.foldl applyPost e) ts' ∧ tokKV ts' = K := by
  intro posts
  induction posts with
  | nil =>
    intro n e eof ts K _ hn h hK
    cases n with
    | zero => simp at hn
    | succ n =>
      simp only [List.map_nil, List.flatten_nil, List.nil_append] at h
      refine ⟨ts, ?_, h⟩
      simp [postfixes, parsePostfix_none e eof ts (h ▸ hK)]
  | cons p posts ih =>
    intro n e eof ts K hwf hn h hK
    cases n with
    | zero => simp at hn
    | succ n =>
      simp only [List.map_cons, List.flatten_cons, List.append_assoc] at h
      obtain ⟨ts1, h1, hts1⟩ := parsePostfix_one e p (hwf p (by simp)) eof ts _ h
      obtain ⟨ts', h2, hts'⟩ := ih n (applyPost e p) eof ts1 K (fun q hq => hwf q (by simp [hq]))
        (by simp at hn; omega) hts1 hK
      refine ⟨ts', ?_, hts'⟩
      simp [postfixes, h1, h2]

/-! ### shapes of denotations -/

/-- neither a `seq` nor a `choice` node: what a term denotes -/
def IsTermDen (e : Expr) : Prop := (∀ es, e ≠ .seq es) ∧ (∀ es, e ≠ .choice es)

theorem applyPost_termDen (e : Expr) (p : Post) : IsTermDen (applyPost e p) := by
  cases p <;> exact ⟨fun _ h => by simp [applyPost] at h, fun _ h => by simp [applyPost] at h⟩

theorem foldl_applyPost_termDen : ∀ (posts : List Post) (e : Expr), IsTermDen e →
    IsTermDen (posts.foldl applyPost e) := by
  intro posts
  induction posts with
  | nil => intro e h; exact h
  | cons p posts ih => intro e _; exact ih _ (applyPost_termDen e p)

theorem applyPre_termDen (b : Bool) (e : Expr) : IsTermDen (applyPre b e) := by
  cases b <;> exact ⟨fun _ h => by simp [applyPre] at h, fun _ h => by simp [applyPre] at h⟩

theorem foldr_applyPre_termDen : ∀ (pre : List Bool) (e : Expr), IsTermDen e →
    IsTermDen (pre.foldr applyPre e) := by
  intro pre
  induction pre with
  | nil => intro e h; exact h
  | cons b pre _ => intro e _; exact applyPre_termDen b _

theorem ite_termDen {c : Prop} [Decidable c] {x y : Expr} (hx : IsTermDen x) (hy : IsTermDen y) :
    IsTermDen (if c then x else y) := by
  split <;> assumption

theorem identExpr_termDen (b : List String) (name : Text) (tag : Option String) :
    IsTermDen (identExpr b name tag) := by
  have hi : ∀ n t, IsTermDen (Expr.ident n t) := fun _ _ => ⟨by simp, by simp⟩
  unfold identExpr
  split
  all_goals first
    | exact ite_termDen (hi _ _) (hi _ _)
    | exact ⟨by simp, by simp⟩

theorem node_termDen (b : List String) (tag : Option String) (n : SNode) : IsTermDen (n.den b tag) := by
  cases n <;> simp only [SNode.den] <;> first
    | exact identExpr_termDen _ _ _
    | exact ⟨fun _ h => by simp at h, fun _ h => by simp at h⟩

theorem term_termDen (b : List String) (t : STerm) : IsTermDen (t.den b) := by
  cases t with
  | mk tag pre node post =>
    simp only [STerm.den]
    exact foldr_applyPre_termDen _ _ (foldl_applyPost_termDen _ _ (node_termDen _ _ _))

/-- how `parse_infix_expression` joins a `~` -/
def joinSeq (left right : Expr) : Expr :=
  match right with
  | .seq es => .seq (left :: es)
  | _ => .seq [left, right]

/-- how `parse_infix_expression` joins a `|` -/
def joinChoice (left right : Expr) : Expr :=
  match right with
  | .choice es => .choice (left :: es)
  | _ => .choice [left, right]

theorem joinSeq_mkSeq (x : Expr) : ∀ (l : List Expr), l ≠ [] → (∀ y ∈ l, IsTermDen y) →
    joinSeq x (mkSeq l) = mkSeq (x :: l)
  | [], h, _ => absurd rfl h
  | [y], _, hl => by
    have hy := (hl y (by simp)).1
    cases y <;> first | rfl | (exact absurd rfl (hy _))
  | y :: z :: l, _, _ => by simp [mkSeq, joinSeq]

theorem mkSeq_not_choice : ∀ (l : List Expr), l ≠ [] → (∀ y ∈ l, IsTermDen y) → ∀ es, mkSeq l ≠ .choice es
  | [], h, _, _ => absurd rfl h
  | [y], _, hl, es => by simpa [mkSeq] using (hl y (by simp)).2 es
  | y :: z :: l, _, _, es => by simp [mkSeq]

theorem joinChoice_mkChoice (x : Expr) : ∀ (l : List Expr), l ≠ [] → (∀ y ∈ l, ∀ es, y ≠ .choice es) →
    joinChoice x (mkChoice l) = mkChoice (x :: l)
  | [], h, _ => absurd rfl h
  | [y], _, hl => by
    have hy := hl y (by simp)
    cases y <;> first | rfl | (exact absurd rfl (hy _))
  | y :: z :: l, _, _ => by simp [mkChoice, joinChoice]

/-! ### the maximal `~`-chain at the head of an expression -/

/-- the elements of the `~`-chain an expression starts with, and the expression after the
    `|` that ends it -/
def chain (b : List String) : SExpr → List Expr × Option SExpr
  | .one t => ([t.den b], none)
  | .cons t false rest => ((t.den b) :: (chain b rest).1, (chain b rest).2)
  | .cons t true rest => ([t.den b], some rest)

def chainKV : Option SExpr → List KV
  | none => []
  | some e => opKV true :: e.kv

theorem chain_ne_nil (b : List String) (e : SExpr) : (chain b e).1 ≠ [] := by
  cases e with
  | one t => simp [chain]
  | cons t bar rest => cases bar <;> simp [chain]

theorem chain_termDen (b : List String) : ∀ (e : SExpr), ∀ y ∈ (chain b e).1, IsTermDen y
  | .one t => by simp [chain]; exact term_termDen b t
  | .cons t false rest => by
    intro y hy
    simp only [chain, List.mem_cons] at hy
    rcases hy with rfl | hy
    · exact term_termDen b t
    · exact chain_termDen b rest y hy
  | .cons t true rest => by simp [chain]; exact term_termDen b t

theorem groups_chain (b : List String) : ∀ (e : SExpr),
    e.groups b = (chain b e).1 :: (match (chain b e).2 with | none => [] | some e' => e'.groups b)
  | .one t => by simp [SExpr.groups, chain]
  | .cons t true rest => by simp [SExpr.groups, chain]
  | .cons t false rest => by
    have ih := groups_chain b rest
    simp only [SExpr.groups, chain]
    rw [ih]
    rfl

theorem groups_ne_nil (b : List String) (e : SExpr) : e.groups b ≠ [] := by
  rw [groups_chain]; simp

theorem groups_elems (b : List String) : ∀ (e : SExpr), ∀ g ∈ e.groups b, g ≠ [] ∧ ∀ y ∈ g, IsTermDen y
  | .one t => by
    intro g hg; simp [SExpr.groups] at hg; subst hg
    exact ⟨by simp, by simp; exact term_termDen b t⟩
  | .cons t true rest => by
    intro g hg
    simp only [SExpr.groups, List.mem_cons] at hg
    rcases hg with rfl | hg
    · exact ⟨by simp, by simp; exact term_termDen b t⟩
    · exact groups_elems b rest g hg
  | .cons t false rest => by
    intro g hg
    have ih := groups_elems b rest
    simp only [SExpr.groups] at hg
    rw [groups_chain b rest] at hg ih
    simp only [consGroup, List.mem_cons] at hg
    rcases hg with rfl | hg
    · refine ⟨by simp, ?_⟩
      intro y hy
      simp only [List.mem_cons] at hy
      rcases hy with rfl | hy
      · exact term_termDen b t
      · exact (ih _ (by simp)).2 y hy
    · exact ih g (by simp [hg])

/-! ### the recursion hypothesis -/

/-- `rec p` (= `parse_expression(p)` one level down) reads every well-formed term / expression
    with fewer than `bound` tokens -/
structure RecOK (b : List String) (rec : Nat → P Expr) (bound : Nat) : Prop where
  term : ∀ (t : STerm), t.WF → t.kv.length < bound → ∀ (eof : Token) (ts : List Token) (K : List KV),
    tokKV ts = t.kv ++ K → TermEnd K →
    ∃ ts', rec PRECEDENCE_PREFIX eof ts = .ok (t.den b) ts' ∧ tokKV ts' = K
  chain : ∀ (e : SExpr), e.WF → e.kv.length < bound → ∀ (eof : Token) (ts : List Token) (K : List KV),
    tokKV ts = e.kv ++ K → Closer K →
    ∃ ts', rec PRECEDENCE_SEQUENCE eof ts = .ok (mkSeq (chain b e).1) ts' ∧
      tokKV ts' = chainKV (chain b e).2 ++ K
  full : ∀ (p : Nat), p = PRECEDENCE_LOWEST ∨ p = PRECEDENCE_CHOICE → ∀ (bar : Bool) (e : SExpr), e.WF →
    (barKV bar ++ e.kv).length < bound → ∀ (eof : Token) (ts : List Token) (K : List KV),
    tokKV ts = barKV bar ++ e.kv ++ K → Closer K →
    ∃ ts', rec p eof ts = .ok (e.den b) ts' ∧ tokKV ts' = K

/-! ### nodes -/

theorem keywordKind_cases (v : Text) :
    keywordKind v = .peek ∨ keywordKind v = .peekAll ∨ keywordKind v = .pop ∨ keywordKind v = .popAll ∨
      keywordKind v = .drop ∨ keywordKind v = .identifier := by
  unfold keywordKind
  repeat' split
  all_goals simp

/-- the next token exists and is not `[` -/
def NoBracket (K : List KV) : Prop := ∃ k v K', K = (k, v) :: K' ∧ k ≠ .lbracket

theorem TermEnd.noBracket {K : List KV} (h : TermEnd K) : NoBracket K := by
  obtain ⟨k, v, K', rfl, hk⟩ := h
  exact ⟨k, v, K', rfl, by rcases hk with rfl | rfl | rfl | rfl <;> simp⟩

theorem unescape_charLit (c : Nat) : Unescape.unescape (stripQuotes (charLit c)) = .ok [c] := by
  unfold charLit
  by_cases hc : c = 92
  · subst hc; decide
  · simp only [hc, if_false]
    exact C12.unescape_single hc

theorem parsePeek_plain (eof : Token) (ts : List Token) (h : NoBracket (tokKV ts)) :
    parsePeek eof ts = .ok .peek ts := by
  obtain ⟨k, v, K', hK, hk⟩ := h
  obtain ⟨t1, ts1, rfl, hk1, -, -⟩ := tokKV_cons_inv hK
  simp only at hk1
  have : t1.kind ≠ .lbracket := by rw [hk1]; exact hk
  simp [parsePeek, this]

theorem primary_node {b : List String} {rec : Nat → P Expr} {bound : Nat} (hrec : RecOK b rec bound)
    (node : SNode) (hwf : node.WF) (hlen : node.kv.length ≤ bound) (tag : Option String) (eof : Token)
    (ts : List Token) (K : List KV) (h : tokKV ts = node.kv ++ K) (hK : NoBracket K) :
    ∃ ts', parsePrimary b rec tag eof ts = .ok (node.den b tag) ts' ∧ tokKV ts' = K := by
  cases node with
  | str s =>
    simp only [SNode.kv, List.cons_append, List.nil_append] at h
    obtain ⟨t1, ts1, rfl, hk1, hv1, h⟩ := tokKV_cons_inv h
    simp only at hk1 hv1
    exact ⟨ts1, by simp [parsePrimary, hk1, hv1, SNode.den], h⟩
  | ci s =>
    simp only [SNode.kv, List.cons_append, List.nil_append] at h
    obtain ⟨t1, ts1, rfl, hk1, hv1, h⟩ := tokKV_cons_inv h
    simp only at hk1 hv1
    exact ⟨ts1, by simp [parsePrimary, hk1, hv1, SNode.den], h⟩
  | range x y =>
    simp only [SNode.kv, List.cons_append, List.nil_append] at h
    obtain ⟨t1, ts1, rfl, hk1, hv1, h⟩ := tokKV_cons_inv h
    obtain ⟨t2, ts2, rfl, hk2, -, h⟩ := tokKV_cons_inv h
    obtain ⟨t3, ts3, rfl, hk3, hv3, h⟩ := tokKV_cons_inv h
    simp only at hk1 hv1 hk2 hk3 hv3
    have hxy : ¬ x > y := by simp only [SNode.WF] at hwf; omega
    exact ⟨ts3, by simp [parsePrimary, parseRange, eat, unescapeP, hk1, hv1, hk2, hk3, hv3, unescape_charLit,
      SNode.den, hxy], h⟩
  | ident name =>
    simp only [SNode.kv, List.cons_append, List.nil_append] at h
    obtain ⟨t1, ts1, rfl, hk1, hv1, h⟩ := tokKV_cons_inv h
    simp only at hk1 hv1
    refine ⟨ts1, ?_, h⟩
    rcases keywordKind_cases name with hkw | hkw | hkw | hkw | hkw | hkw
    · rw [hkw] at hk1
      simp [parsePrimary, hk1, SNode.den, identExpr, hkw, parsePeek_plain eof ts1 (h ▸ hK)]
    · rw [hkw] at hk1; simp [parsePrimary, hk1, SNode.den, identExpr, hkw]
    · rw [hkw] at hk1; simp [parsePrimary, hk1, SNode.den, identExpr, hkw]
    · rw [hkw] at hk1; simp [parsePrimary, hk1, SNode.den, identExpr, hkw]
    · rw [hkw] at hk1; simp [parsePrimary, hk1, SNode.den, identExpr, hkw]
    · rw [hkw] at hk1
      simp only [parsePrimary, bind_eq, current_cons, hk1, next_cons, hv1, SNode.den, identExpr, hkw]
      split <;> rfl
  | pushLit s =>
    simp only [SNode.kv, List.cons_append, List.nil_append] at h
    obtain ⟨t1, ts1, rfl, hk1, -, h⟩ := tokKV_cons_inv h
    obtain ⟨t2, ts2, rfl, hk2, -, h⟩ := tokKV_cons_inv h
    obtain ⟨t3, ts3, rfl, hk3, hv3, h⟩ := tokKV_cons_inv h
    obtain ⟨t4, ts4, rfl, hk4, -, h⟩ := tokKV_cons_inv h
    simp only at hk1 hk2 hk3 hv3 hk4
    exact ⟨ts4, by simp [parsePrimary, eat, hk1, hk2, hk3, hv3, hk4, SNode.den], h⟩
  | push bar e =>
    simp only [SNode.kv, List.cons_append, List.nil_append, List.append_assoc] at h hlen
    obtain ⟨t1, ts1, rfl, hk1, -, h⟩ := tokKV_cons_inv h
    obtain ⟨t2, ts2, rfl, hk2, -, h⟩ := tokKV_cons_inv h
    simp only at hk1 hk2
    have hlen' : (barKV bar ++ e.kv).length < bound := by
      simp only [List.length_cons, List.length_append, List.length_nil] at hlen ⊢; omega
    obtain ⟨ts3, h3, hts3⟩ := hrec.full PRECEDENCE_LOWEST (Or.inl rfl) bar e (by simpa [SNode.WF] using hwf) hlen'
      eof ts2 ((TK.rparen, [41]) :: K) (by simpa [List.append_assoc] using h) ⟨_, _, _, rfl, Or.inr rfl⟩
    obtain ⟨t4, ts4, rfl, hk4, -, h⟩ := tokKV_cons_inv hts3
    simp only at hk4
    exact ⟨ts4, by simp [parsePrimary, eat, hk1, hk2, h3, hk4, SNode.den], h⟩
  | paren bar e =>
    simp only [SNode.kv, List.cons_append, List.nil_append, List.append_assoc] at h hlen
    obtain ⟨t1, ts1, rfl, hk1, -, h⟩ := tokKV_cons_inv h
    simp only at hk1
    have hlen' : (barKV bar ++ e.kv).length < bound := by
      simp only [List.length_cons, List.length_append, List.length_nil] at hlen ⊢; omega
    obtain ⟨ts3, h3, hts3⟩ := hrec.full PRECEDENCE_LOWEST (Or.inl rfl) bar e (by simpa [SNode.WF] using hwf) hlen'
      eof ts1 ((TK.rparen, [41]) :: K) (by simpa [List.append_assoc] using h) ⟨_, _, _, rfl, Or.inr rfl⟩
    obtain ⟨t4, ts4, rfl, hk4, -, h⟩ := tokKV_cons_inv hts3
    simp only at hk4
    exact ⟨ts4, by simp [parsePrimary, eat, hk1, h3, hk4, SNode.den], h⟩
  | slice x y =>
    simp only [SNode.WF] at hwf
    cases x with
    | none =>
      cases y with
      | none =>
        simp only [SNode.kv, optIntKV, List.cons_append, List.nil_append, List.append_nil] at h
        obtain ⟨t1, ts1, rfl, hk1, -, h⟩ := tokKV_cons_inv h
        obtain ⟨t2, ts2, rfl, hk2, -, h⟩ := tokKV_cons_inv h
        obtain ⟨t3, ts3, rfl, hk3, -, h⟩ := tokKV_cons_inv h
        obtain ⟨t4, ts4, rfl, hk4, -, h⟩ := tokKV_cons_inv h
        simp only at hk1 hk2 hk3 hk4
        exact ⟨ts4, by simp [parsePrimary, parsePeek, eat, hk1, hk2, hk3, hk4, SNode.den], h⟩
      | some j =>
        simp only [SNode.kv, optIntKV, List.cons_append, List.nil_append, List.append_nil] at h
        obtain ⟨t1, ts1, rfl, hk1, -, h⟩ := tokKV_cons_inv h
        obtain ⟨t2, ts2, rfl, hk2, -, h⟩ := tokKV_cons_inv h
        obtain ⟨t3, ts3, rfl, hk3, -, h⟩ := tokKV_cons_inv h
        obtain ⟨t4, ts4, rfl, hk4, hv4, h⟩ := tokKV_cons_inv h
        obtain ⟨t5, ts5, rfl, hk5, -, h⟩ := tokKV_cons_inv h
        simp only at hk1 hk2 hk3 hk4 hv4 hk5
        exact ⟨ts5, by simp [parsePrimary, parsePeek, eat, hk1, hk2, hk3, hk4, hk5, parseInt_int hv4 hwf.2,
          SNode.den], h⟩
    | some i =>
      cases y with
      | none =>
        simp only [SNode.kv, optIntKV, List.cons_append, List.nil_append, List.append_nil] at h
        obtain ⟨t1, ts1, rfl, hk1, -, h⟩ := tokKV_cons_inv h
        obtain ⟨t2, ts2, rfl, hk2, -, h⟩ := tokKV_cons_inv h
        obtain ⟨t3, ts3, rfl, hk3, hv3, h⟩ := tokKV_cons_inv h
        obtain ⟨t4, ts4, rfl, hk4, -, h⟩ := tokKV_cons_inv h
        obtain ⟨t5, ts5, rfl, hk5, -, h⟩ := tokKV_cons_inv h
        simp only at hk1 hk2 hk3 hv3 hk4 hk5
        exact ⟨ts5, by simp [parsePrimary, parsePeek, eat, hk1, hk2, hk3, hk4, hk5, parseInt_int hv3 hwf.1,
          SNode.den], h⟩
      | some j =>
        simp only [SNode.kv, optIntKV, List.cons_append, List.nil_append] at h
        obtain ⟨t1, ts1, rfl, hk1, -, h⟩ := tokKV_cons_inv h
        obtain ⟨t2, ts2, rfl, hk2, -, h⟩ := tokKV_cons_inv h
        obtain ⟨t3, ts3, rfl, hk3, hv3, h⟩ := tokKV_cons_inv h
        obtain ⟨t4, ts4, rfl, hk4, -, h⟩ := tokKV_cons_inv h
        obtain ⟨t5, ts5, rfl, hk5, hv5, h⟩ := tokKV_cons_inv h
        obtain ⟨t6, ts6, rfl, hk6, -, h⟩ := tokKV_cons_inv h
        simp only at hk1 hk2 hk3 hv3 hk4 hk5 hv5 hk6
        exact ⟨ts6, by simp [parsePrimary, parsePeek, eat, hk1, hk2, hk3, hk4, hk5, hk6, parseInt_int hv3 hwf.1,
          parseInt_int hv5 hwf.2, SNode.den], h⟩

/-! ### terms -/

theorem node_head (node : SNode) : ∃ kv rest, node.kv = kv :: rest ∧ kv.1 ≠ .choiceOp ∧ kv.1 ≠ .tag := by
  cases node with
  | ident name =>
    refine ⟨_, _, rfl, ?_⟩
    rcases keywordKind_cases name with h | h | h | h | h | h <;> simp [h]
  | str s => exact ⟨_, _, rfl, by simp⟩
  | ci s => exact ⟨_, _, rfl, by simp⟩
  | range x y => exact ⟨_, _, rfl, by simp⟩
  | pushLit s => exact ⟨_, _, rfl, by simp⟩
  | push bar e =>
    exact ⟨(.push, sPUSH), (.lparen, [40]) :: (barKV bar ++ e.kv ++ [(.rparen, [41])]), by simp [SNode.kv], by simp⟩
  | slice x y =>
    exact ⟨(.peek, sPEEK), (.lbracket, [91]) :: (optIntKV x ++ [(.rangeOp, [46, 46])] ++ optIntKV y ++ [(.rbracket, [93])]),
      by simp [SNode.kv], by simp⟩
  | paren bar e =>
    exact ⟨(.lparen, [40]), barKV bar ++ e.kv ++ [(.rparen, [41])], by simp [SNode.kv], by simp⟩

theorem parseHead_none {eof t : Token} {ts : List Token} (h1 : t.kind ≠ .choiceOp) (h2 : t.kind ≠ .tag) :
    parseHead eof (t :: ts) = .ok none (t :: ts) := by
  simp [parseHead, h1, h2]

theorem parseHead_tag {eof t1 t2 : Token} {ts : List Token} {tg : Text} (h1 : t1.kind = .tag)
    (hv : t1.value = 35 :: tg) (h2 : t2.kind = .assignOp) :
    parseHead eof (t1 :: t2 :: ts) = .ok (some (nameOf tg)) ts := by
  simp [parseHead, h1, h2, hv, eat]

theorem parseHead_bar {eof t1 t2 : Token} {ts : List Token} (h0 : t1.kind = .choiceOp)
    (h2 : t2.kind ≠ .tag) :
    parseHead eof (t1 :: t2 :: ts) = .ok none (t2 :: ts) := by
  simp [parseHead, h0, h2]

theorem parseHead_bar_tag {eof t0 t1 t2 : Token} {ts : List Token} {tg : Text} (h0 : t0.kind = .choiceOp)
    (h1 : t1.kind = .tag) (hv : t1.value = 35 :: tg) (h2 : t2.kind = .assignOp) :
    parseHead eof (t0 :: t1 :: t2 :: ts) = .ok (some (nameOf tg)) ts := by
  simp [parseHead, h0, h1, h2, hv, eat]

theorem postKV_head (p : Post) : ∃ k v rest, postKV p = (k, v) :: rest ∧ k ≠ .lbracket := by
  cases p <;> exact ⟨_, _, _, rfl, by simp⟩

theorem posts_noBracket (posts : List Post) {K : List KV} (hK : TermEnd K) :
    NoBracket ((posts.map postKV).flatten ++ K) := by
  cases posts with
  | nil => simpa using hK.noBracket
  | cons p posts =>
    obtain ⟨k, v, rest, hp, hk⟩ := postKV_head p
    exact ⟨k, v, rest ++ ((posts.map postKV).flatten ++ K), by simp [hp], hk⟩

theorem posts_length (posts : List Post) : posts.length ≤ ((posts.map postKV).flatten).length := by
  induction posts with
  | nil => simp
  | cons p posts ih =>
    have := postKV_length_pos p
    simp only [List.map_cons, List.flatten_cons, List.length_append, List.length_cons]; omega

/-- the part of `parse_expression` before the infix loop, on the tokens of a term -/
def termPart (b : List String) (rec : Nat → P Expr) : P Expr := do
  let tag ← parseHead
  let left ← parsePrimary b rec tag
  (fun eof ts => postfixes (ts.length + 1) left eof ts : P Expr)

theorem exprBody_eq (b : List String) (rec : Nat → P Expr) (p : Nat) :
    exprBody b rec p = (do
      let left ← termPart b rec
      (fun eof ts => infixes rec p (ts.length + 1) left eof ts : P Expr)) := by
  funext eof ts
  simp only [exprBody, termPart, bind_eq]
  cases parseHead eof ts with
  | ok a ts1 =>
    simp only
    cases parsePrimary b rec a eof ts1 with
    | ok e ts2 => rfl
    | err k t => rfl
    | exc n => rfl
    | oof => rfl
  | err k t => rfl
  | exc n => rfl
  | oof => rfl

/-- a term without its tag and first prefix operator -/
theorem den_prefix (b : List String) (tag : Option Text) (c : Bool) (pre : List Bool) (node : SNode)
    (post : List Post) :
    (STerm.mk tag (c :: pre) node post).den b = applyPre c ((STerm.mk none pre node post).den b) := by
  simp only [STerm.den, List.isEmpty_cons, Bool.false_eq_true, if_false, List.foldr_cons, Option.map_none]
  cases pre <;> simp

theorem termPart_term {b : List String} {rec : Nat → P Expr} {bound : Nat} (hrec : RecOK b rec bound)
    (t : STerm) (hwf : t.WF) (hlen : t.kv.length ≤ bound) (eof : Token) (ts : List Token) (K : List KV)
    (h : tokKV ts = t.kv ++ K) (hK : TermEnd K) :
    ∃ ts', termPart b rec eof ts = .ok (t.den b) ts' ∧ tokKV ts' = K := by
  cases t with
  | mk tag pre node post =>
    simp only [STerm.WF] at hwf
    obtain ⟨hwtag, hwnode, hwpost⟩ := hwf
    -- the tag
    have head : ∀ (ts0 : List Token), tokKV ts0 = tagKV tag ++ (pre.map preKV ++ node.kv ++ (post.map postKV).flatten ++ K) →
        ∃ ts1, parseHead eof ts0 = .ok (tag.map nameOf) ts1 ∧
          tokKV ts1 = pre.map preKV ++ node.kv ++ (post.map postKV).flatten ++ K := by
      intro ts0 h0
      have hfirst : ∃ kv rest, pre.map preKV ++ node.kv ++ (post.map postKV).flatten ++ K = kv :: rest ∧
          kv.1 ≠ .choiceOp ∧ kv.1 ≠ .tag := by
        cases pre with
        | nil =>
          obtain ⟨kv, rest, hn, h1, h2⟩ := node_head node
          exact ⟨kv, rest ++ (post.map postKV).flatten ++ K, by simp [hn], h1, h2⟩
        | cons c pre =>
          refine ⟨preKV c, pre.map preKV ++ node.kv ++ (post.map postKV).flatten ++ K, by simp, ?_⟩
          cases c <;> simp [preKV]
      obtain ⟨kv, rest, hrest, hk1, hk2⟩ := hfirst
      cases tag with
      | none =>
        simp only [tagKV, List.nil_append] at h0
        rw [hrest] at h0
        obtain ⟨t1, ts1, rfl, hkd, -, -⟩ := tokKV_cons_inv h0
        refine ⟨t1 :: ts1, ?_, by rw [h0, hrest]⟩
        rw [parseHead_none (by rw [hkd]; exact hk1) (by rw [hkd]; exact hk2)]; rfl
      | some tg =>
        simp only [tagKV, List.cons_append, List.nil_append] at h0
        obtain ⟨t1, ts1, rfl, hkd1, hv1, h0⟩ := tokKV_cons_inv h0
        obtain ⟨t2, ts2, rfl, hkd2, -, h0⟩ := tokKV_cons_inv h0
        exact ⟨ts2, by rw [parseHead_tag hkd1 hv1 hkd2]; rfl, h0⟩
    simp only [STerm.kv, List.append_assoc] at h hlen
    obtain ⟨ts1, h1, hts1⟩ := head ts (by simpa [List.append_assoc] using h)
    cases pre with
    | nil =>
      simp only [List.map_nil, List.nil_append, List.append_assoc] at hts1
      have hlen' : node.kv.length ≤ bound := by
        simp only [List.length_append] at hlen; omega
      obtain ⟨ts2, h2, hts2⟩ := primary_node hrec node hwnode hlen' (tag.map nameOf) eof ts1 _ hts1
        (posts_noBracket post hK)
      have hn : post.length < ts2.length + 1 := by
        have := posts_length post
        have := congrArg List.length hts2
        simp only [tokKV_length, List.length_append] at this
        omega
      obtain ⟨ts3, h3, hts3⟩ := postfixes_all post (ts2.length + 1) (node.den b (tag.map nameOf)) eof ts2 K
        hwpost hn hts2 hK
      refine ⟨ts3, ?_, hts3⟩
      simp only [termPart, bind_eq, h1, h2, h3, STerm.den, List.isEmpty_nil, if_true, List.foldr_nil]
    | cons c pre =>
      simp only [List.map_cons, List.cons_append, List.append_assoc] at hts1
      obtain ⟨t1, ts2, rfl, hkd, -, hts2⟩ := tokKV_cons_inv hts1
      have hsub : (STerm.mk none pre node post).WF := by simp only [STerm.WF]; exact ⟨trivial, hwnode, hwpost⟩
      have hsublen : (STerm.mk none pre node post).kv.length < bound := by
        simp only [STerm.kv, tagKV, List.nil_append, List.length_append, List.length_map, List.length_cons] at hlen ⊢
        omega
      obtain ⟨ts3, h3, hts3⟩ := hrec.term (STerm.mk none pre node post) hsub hsublen eof ts2 K
        (by simpa [STerm.kv, tagKV, List.append_assoc] using hts2) hK
      have h4 := postfixes_all [] (ts3.length + 1) (applyPre c ((STerm.mk none pre node post).den b)) eof ts3 K
        (by simp) (by simp) (by simpa using hts3) hK
      obtain ⟨ts4, h4, hts4⟩ := h4
      simp only [List.foldl_nil] at h4
      refine ⟨ts4, ?_, hts4⟩
      rw [den_prefix]
      cases c
      · have hk : t1.kind = .negPred := by simpa [preKV] using hkd
        simp only [termPart, bind_eq, h1, parsePrimary, current_cons, hk, advance_cons, h3, pure_eq]
        simpa [applyPre] using h4
      · have hk : t1.kind = .posPred := by simpa [preKV] using hkd
        simp only [termPart, bind_eq, h1, parsePrimary, current_cons, hk, advance_cons, h3, pure_eq]
        simpa [applyPre] using h4

/-! ### the infix loop -/

theorem parseHead_skip_bar {eof t0 t1 : Token} {ts : List Token} (h0 : t0.kind = .choiceOp)
    (h1 : t1.kind ≠ .choiceOp) : parseHead eof (t0 :: t1 :: ts) = parseHead eof (t1 :: ts) := by
  simp [parseHead, h0, h1]

theorem termPart_skip_bar {b : List String} {rec : Nat → P Expr} {eof t0 t1 : Token} {ts : List Token}
    (h0 : t0.kind = .choiceOp) (h1 : t1.kind ≠ .choiceOp) :
    termPart b rec eof (t0 :: t1 :: ts) = termPart b rec eof (t1 :: ts) := by
  simp only [termPart, bind_eq, parseHead_skip_bar h0 h1]

theorem term_head (t : STerm) : ∃ kv rest, t.kv = kv :: rest ∧ kv.1 ≠ .choiceOp := by
  cases t with
  | mk tag pre node post =>
    cases tag with
    | some tg =>
      exact ⟨(.tag, 35 :: tg), (.assignOp, [61]) :: (pre.map preKV ++ node.kv ++ (post.map postKV).flatten),
        by simp [STerm.kv, tagKV], by simp⟩
    | none =>
      cases pre with
      | cons c pre =>
        exact ⟨preKV c, pre.map preKV ++ node.kv ++ (post.map postKV).flatten, by simp [STerm.kv, tagKV],
          by cases c <;> simp [preKV]⟩
      | nil =>
        obtain ⟨kv, rest, hn, h1, -⟩ := node_head node
        exact ⟨kv, rest ++ (post.map postKV).flatten, by simp [STerm.kv, tagKV, hn], h1⟩

theorem expr_head (e : SExpr) : ∃ kv rest, e.kv = kv :: rest ∧ kv.1 ≠ .choiceOp := by
  cases e with
  | one t => simpa [SExpr.kv] using term_head t
  | cons t bar rest =>
    obtain ⟨kv, r, ht, hk⟩ := term_head t
    exact ⟨kv, r ++ [opKV bar] ++ rest.kv, by simp [SExpr.kv, ht], hk⟩

theorem infixes_stop {rec : Nat → P Expr} {p n : Nat} {left : Expr} {eof : Token} {ts : List Token}
    {k : TK} {v : Text} {K : List KV} (h : tokKV ts = (k, v) :: K)
    (hk : k = .rbrace ∨ k = .rparen ∨ (k = .sequenceOp ∧ PRECEDENCE_SEQUENCE < p) ∨
      (k = .choiceOp ∧ PRECEDENCE_CHOICE < p)) :
    infixes rec p (n + 1) left eof ts = .ok left ts := by
  obtain ⟨t1, ts1, rfl, hk1, -, -⟩ := tokKV_cons_inv h
  simp only at hk1
  have e1 : precedenceOf TK.sequenceOp = PRECEDENCE_SEQUENCE := rfl
  have e2 : precedenceOf TK.choiceOp = PRECEDENCE_CHOICE := rfl
  rcases hk with rfl | rfl | ⟨rfl, hp⟩ | ⟨rfl, hp⟩
  · simp [infixes, hk1, isInfix]
  · simp [infixes, hk1, isInfix]
  · simp [infixes, hk1, e1, hp]
  · simp [infixes, hk1, e2, hp]

theorem infixes_seq {rec : Nat → P Expr} {p n : Nat} {left : Expr} {eof t : Token} {ts : List Token}
    (hk : t.kind = .sequenceOp) (hp : p ≤ PRECEDENCE_SEQUENCE) :
    infixes rec p (n + 1) left eof (t :: ts) =
      match rec PRECEDENCE_SEQUENCE eof ts with
      | .ok right ts' => infixes rec p n (joinSeq left right) eof ts'
      | .err k t => .err k t
      | .exc n => .exc n
      | .oof => .oof := by
  have hp' : ¬ (PRECEDENCE_SEQUENCE < p) := by omega
  have e1 : precedenceOf TK.sequenceOp = PRECEDENCE_SEQUENCE := rfl
  have e2 : isInfix TK.sequenceOp = true := rfl
  have e3 : ¬ (TK.sequenceOp = TK.eoi) := by simp
  simp only [infixes, bind_eq, current_cons, hk, e1, e2, parseInfix]
  simp only [hp', e3, decide_false, Bool.or_false, Bool.not_true, Bool.false_eq_true, if_false, bind_eq,
    next_cons, hk, e1]
  cases rec PRECEDENCE_SEQUENCE eof ts with
  | ok right ts' =>
    simp only [joinSeq]
    cases right <;> rfl
  | err k t => rfl
  | exc n => rfl
  | oof => rfl

theorem infixes_choice {rec : Nat → P Expr} {p n : Nat} {left : Expr} {eof t : Token} {ts : List Token}
    (hk : t.kind = .choiceOp) (hp : p ≤ PRECEDENCE_CHOICE) :
    infixes rec p (n + 1) left eof (t :: ts) =
      match rec PRECEDENCE_CHOICE eof ts with
      | .ok right ts' => infixes rec p n (joinChoice left right) eof ts'
      | .err k t => .err k t
      | .exc n => .exc n
      | .oof => .oof := by
  have hp' : ¬ (PRECEDENCE_CHOICE < p) := by omega
  have e1 : precedenceOf TK.choiceOp = PRECEDENCE_CHOICE := rfl
  have e2 : isInfix TK.choiceOp = true := rfl
  have e3 : ¬ (TK.choiceOp = TK.eoi) := by simp
  simp only [infixes, bind_eq, current_cons, hk, e1, e2, parseInfix]
  simp only [hp', e3, decide_false, Bool.or_false, Bool.not_true, Bool.false_eq_true, if_false, bind_eq,
    next_cons, hk, e1]
  cases rec PRECEDENCE_CHOICE eof ts with
  | ok right ts' =>
    simp only [joinChoice]
    cases right <;> rfl
  | err k t => rfl
  | exc n => rfl
  | oof => rfl

/-! ### expressions -/

theorem Closer.cases {K : List KV} (h : Closer K) : ∃ k v K', K = (k, v) :: K' ∧ (k = .rbrace ∨ k = .rparen) := h

/-- `parse_expression(PRECEDENCE_PREFIX)`: one term -/
theorem exprBody_term {b : List String} {rec : Nat → P Expr} {bound : Nat} (hrec : RecOK b rec bound)
    (t : STerm) (hwf : t.WF) (hlen : t.kv.length ≤ bound) (eof : Token) (ts : List Token) (K : List KV)
    (h : tokKV ts = t.kv ++ K) (hK : TermEnd K) :
    ∃ ts', exprBody b rec PRECEDENCE_PREFIX eof ts = .ok (t.den b) ts' ∧ tokKV ts' = K := by
  obtain ⟨ts1, h1, hts1⟩ := termPart_term hrec t hwf hlen eof ts K h hK
  refine ⟨ts1, ?_, hts1⟩
  obtain ⟨k, v, K', rfl, hk⟩ := hK
  rw [exprBody_eq]
  simp only [bind_eq, h1]
  apply infixes_stop hts1
  rcases hk with rfl | rfl | rfl | rfl
  · exact Or.inr (Or.inr (Or.inl ⟨rfl, by decide⟩))
  · exact Or.inr (Or.inr (Or.inr ⟨rfl, by decide⟩))
  · exact Or.inl rfl
  · exact Or.inr (Or.inl rfl)

/-- `parse_expression(PRECEDENCE_SEQUENCE)`: the maximal `~`-chain -/
theorem exprBody_chain {b : List String} {rec : Nat → P Expr} {bound : Nat} (hrec : RecOK b rec bound)
    (e : SExpr) (hwf : e.WF) (hlen : e.kv.length ≤ bound) (eof : Token) (ts : List Token) (K : List KV)
    (h : tokKV ts = e.kv ++ K) (hK : Closer K) :
    ∃ ts', exprBody b rec PRECEDENCE_SEQUENCE eof ts = .ok (mkSeq (chain b e).1) ts' ∧
      tokKV ts' = chainKV (chain b e).2 ++ K := by
  rw [exprBody_eq]
  cases e with
  | one t =>
    simp only [SExpr.kv, SExpr.WF] at h hlen hwf
    obtain ⟨ts1, h1, hts1⟩ := termPart_term hrec t hwf hlen eof ts K h hK.termEnd
    refine ⟨ts1, ?_, by simpa [chain, chainKV] using hts1⟩
    obtain ⟨k, v, K', rfl, hk⟩ := hK
    simp only [bind_eq, h1, chain, mkSeq]
    apply infixes_stop hts1
    rcases hk with rfl | rfl
    · exact Or.inl rfl
    · exact Or.inr (Or.inl rfl)
  | cons t bar rest =>
    simp only [SExpr.kv, SExpr.WF, List.append_assoc, List.cons_append, List.nil_append] at h hlen hwf
    have hlen_t : t.kv.length ≤ bound := by simp only [List.length_append] at hlen; omega
    have hend : TermEnd (opKV bar :: (rest.kv ++ K)) :=
      ⟨(opKV bar).1, (opKV bar).2, rest.kv ++ K, rfl, by cases bar <;> simp [opKV]⟩
    obtain ⟨ts1, h1, hts1⟩ := termPart_term hrec t hwf.1 hlen_t eof ts _ h hend
    cases bar with
    | true =>
      refine ⟨ts1, ?_, by simpa [chain, chainKV, opKV] using hts1⟩
      simp only [bind_eq, h1, chain, mkSeq]
      exact infixes_stop (by simpa [opKV] using hts1) (Or.inr (Or.inr (Or.inr ⟨rfl, by decide⟩)))
    | false =>
      obtain ⟨t1, ts2, rfl, hk1, -, hts2⟩ := tokKV_cons_inv hts1
      have hk1' : t1.kind = .sequenceOp := by simpa [opKV] using hk1
      have hlen_r : rest.kv.length < bound := by
        simp only [List.length_append, List.length_cons] at hlen; omega
      obtain ⟨ts3, h3, hts3⟩ := hrec.chain rest hwf.2 hlen_r eof ts2 K hts2 hK
      have hn : ∃ m, ts2.length = m + 1 := by
        have := congrArg List.length hts2
        obtain ⟨k, v, K', rfl, -⟩ := hK
        simp only [tokKV_length, List.length_append, List.length_cons] at this
        exact ⟨ts2.length - 1, by omega⟩
      obtain ⟨m, hm⟩ := hn
      refine ⟨ts3, ?_, by simpa [chain] using hts3⟩
      simp only [bind_eq, h1, List.length_cons, hm]
      rw [infixes_seq hk1' (by decide)]
      simp only [h3]
      rw [joinSeq_mkSeq _ _ (chain_ne_nil b rest) (chain_termDen b rest)]
      simp only [chain]
      -- what follows the chain of `rest`: its `|`, or the closer
      cases hc : (chain b rest).2 with
      | none =>
        rw [hc] at hts3
        simp only [chainKV, List.nil_append] at hts3
        obtain ⟨k, v, K', rfl, hk⟩ := hK
        apply infixes_stop hts3
        rcases hk with rfl | rfl
        · exact Or.inl rfl
        · exact Or.inr (Or.inl rfl)
      | some e' =>
        rw [hc] at hts3
        simp only [chainKV, List.cons_append] at hts3
        exact infixes_stop (by simpa [opKV] using hts3) (Or.inr (Or.inr (Or.inr ⟨rfl, by decide⟩)))

theorem chain_some (b : List String) : ∀ (e e' : SExpr), (chain b e).2 = some e' → e.WF →
    e'.WF ∧ e'.kv.length < e.kv.length
  | .one t, e', h, _ => by simp [chain] at h
  | .cons t true rest, e', h, hwf => by
    simp only [chain, Option.some.injEq] at h
    subst h
    simp only [SExpr.WF] at hwf
    exact ⟨hwf.2, by simp only [SExpr.kv, List.length_append, List.length_cons, List.length_nil]; omega⟩
  | .cons t false rest, e', h, hwf => by
    simp only [chain] at h
    simp only [SExpr.WF] at hwf
    have := chain_some b rest e' h hwf.2
    exact ⟨this.1, by
      simp only [SExpr.kv, List.length_append, List.length_cons, List.length_nil]; omega⟩

theorem groups_mkSeq_not_choice (b : List String) (e : SExpr) :
    ∀ y ∈ (e.groups b).map mkSeq, ∀ es, y ≠ .choice es := by
  intro y hy es
  obtain ⟨g, hg, rfl⟩ := List.mem_map.mp hy
  have := groups_elems b e g hg
  exact mkSeq_not_choice g this.1 this.2 es

theorem exprBody_skip_bar {b : List String} {rec : Nat → P Expr} {p : Nat} {eof t0 t1 : Token}
    {ts : List Token} (h0 : t0.kind = .choiceOp) (h1 : t1.kind ≠ .choiceOp) :
    exprBody b rec p eof (t0 :: t1 :: ts) = exprBody b rec p eof (t1 :: ts) := by
  rw [exprBody_eq]
  simp only [bind_eq, termPart_skip_bar h0 h1]

/-- `parse_expression(p)` for `p` = LOWEST or CHOICE: the whole expression -/
theorem exprBody_full0 {b : List String} {rec : Nat → P Expr} {bound : Nat} (hrec : RecOK b rec bound)
    (p : Nat) (hp : p = PRECEDENCE_LOWEST ∨ p = PRECEDENCE_CHOICE) (e : SExpr) (hwf : e.WF)
    (hlen : e.kv.length ≤ bound) (eof : Token) (ts : List Token) (K : List KV)
    (h : tokKV ts = e.kv ++ K) (hK : Closer K) :
    ∃ ts', exprBody b rec p eof ts = .ok (e.den b) ts' ∧ tokKV ts' = K := by
  have hp2 : p ≤ PRECEDENCE_CHOICE := by rcases hp with rfl | rfl <;> decide
  have hp3 : p ≤ PRECEDENCE_SEQUENCE := by rcases hp with rfl | rfl <;> decide
  have stop : ∀ {n : Nat} {left : Expr} {ts0 : List Token}, tokKV ts0 = K →
      infixes rec p (n + 1) left eof ts0 = .ok left ts0 := by
    intro n left ts0 h0
    obtain ⟨k, v, K', rfl, hk⟩ := hK
    apply infixes_stop h0
    rcases hk with rfl | rfl
    · exact Or.inl rfl
    · exact Or.inr (Or.inl rfl)
  have Kpos : ∀ {ts0 : List Token} {X : List KV}, tokKV ts0 = X ++ K → ∃ m, ts0.length = m + 1 := by
    intro ts0 X h0
    have := congrArg List.length h0
    obtain ⟨k, v, K', rfl, -⟩ := hK
    simp only [tokKV_length, List.length_append, List.length_cons] at this
    exact ⟨ts0.length - 1, by omega⟩
  rw [exprBody_eq]
  cases e with
  | one t =>
    simp only [SExpr.kv, SExpr.WF] at h hlen hwf
    obtain ⟨ts1, h1, hts1⟩ := termPart_term hrec t hwf hlen eof ts K h hK.termEnd
    refine ⟨ts1, ?_, hts1⟩
    simp only [bind_eq, h1, SExpr.den, SExpr.groups, List.map_cons, List.map_nil, mkSeq, mkChoice]
    exact stop hts1
  | cons t bar rest =>
    simp only [SExpr.kv, SExpr.WF, List.append_assoc, List.cons_append, List.nil_append] at h hlen hwf
    have hlen_t : t.kv.length ≤ bound := by simp only [List.length_append] at hlen; omega
    have hlen_r : rest.kv.length < bound := by
      simp only [List.length_append, List.length_cons] at hlen; omega
    have hend : TermEnd (opKV bar :: (rest.kv ++ K)) :=
      ⟨(opKV bar).1, (opKV bar).2, rest.kv ++ K, rfl, by cases bar <;> simp [opKV]⟩
    obtain ⟨ts1, h1, hts1⟩ := termPart_term hrec t hwf.1 hlen_t eof ts _ h hend
    obtain ⟨t1, ts2, rfl, hk1, -, hts2⟩ := tokKV_cons_inv hts1
    obtain ⟨m, hm⟩ := Kpos hts2
    cases bar with
    | true =>
      have hk1' : t1.kind = .choiceOp := by simpa [opKV] using hk1
      obtain ⟨ts3, h3, hts3⟩ := hrec.full PRECEDENCE_CHOICE (Or.inr rfl) false rest hwf.2
        (by simpa [barKV] using hlen_r) eof ts2 K (by simpa [barKV] using hts2) hK
      refine ⟨ts3, ?_, hts3⟩
      simp only [bind_eq, h1, List.length_cons, hm]
      rw [infixes_choice hk1' hp2]
      simp only [h3, SExpr.den]
      rw [joinChoice_mkChoice _ _ (by simpa using groups_ne_nil b rest) (groups_mkSeq_not_choice b rest)]
      simp only [SExpr.groups, List.map_cons, mkSeq]
      exact stop hts3
    | false =>
      have hk1' : t1.kind = .sequenceOp := by simpa [opKV] using hk1
      obtain ⟨ts3, h3, hts3⟩ := hrec.chain rest hwf.2 hlen_r eof ts2 K hts2 hK
      simp only [bind_eq, h1, List.length_cons, hm]
      rw [infixes_seq hk1' hp3]
      simp only [h3]
      rw [joinSeq_mkSeq _ _ (chain_ne_nil b rest) (chain_termDen b rest)]
      have hg := groups_chain b rest
      cases hc : (chain b rest).2 with
      | none =>
        rw [hc] at hts3 hg
        simp only [chainKV, List.nil_append] at hts3
        refine ⟨ts3, ?_, hts3⟩
        simp only [SExpr.den, SExpr.groups, hg, consGroup, List.map_cons, List.map_nil, mkChoice]
        exact stop hts3
      | some e' =>
        rw [hc] at hts3 hg
        simp only [chainKV, List.cons_append] at hts3
        obtain ⟨t4, ts4, rfl, hk4, -, hts4⟩ := tokKV_cons_inv hts3
        have hk4' : t4.kind = .choiceOp := by simpa [opKV] using hk4
        obtain ⟨hwf', hlt'⟩ := chain_some b rest e' hc hwf.2
        obtain ⟨ts5, h5, hts5⟩ := hrec.full PRECEDENCE_CHOICE (Or.inr rfl) false e' hwf'
          (by simp only [barKV, Bool.false_eq_true, if_false, List.nil_append]; omega) eof ts4 K
          (by simpa [barKV] using hts4) hK
        refine ⟨ts5, ?_, hts5⟩
        rw [infixes_choice hk4' hp2]
        simp only [h5, SExpr.den]
        rw [joinChoice_mkChoice _ _ (by simpa using groups_ne_nil b e') (groups_mkSeq_not_choice b e')]
        simp only [SExpr.groups, hg, consGroup, List.map_cons]
        obtain ⟨m', hm'⟩ : ∃ m', m = m' + 1 := by
          have h4 := congrArg List.length hts4
          have h2 := congrArg List.length hts2
          have hKpos : 0 < K.length := by
            obtain ⟨k, v, K', rfl, -⟩ := hK
            simp
          simp only [tokKV_length, List.length_append] at h4 h2
          exact ⟨m - 1, by omega⟩
        subst hm'
        exact stop hts5

theorem exprBody_full {b : List String} {rec : Nat → P Expr} {bound : Nat} (hrec : RecOK b rec bound)
    (p : Nat) (hp : p = PRECEDENCE_LOWEST ∨ p = PRECEDENCE_CHOICE) (bar : Bool) (e : SExpr) (hwf : e.WF)
    (hlen : (barKV bar ++ e.kv).length ≤ bound) (eof : Token) (ts : List Token) (K : List KV)
    (h : tokKV ts = barKV bar ++ e.kv ++ K) (hK : Closer K) :
    ∃ ts', exprBody b rec p eof ts = .ok (e.den b) ts' ∧ tokKV ts' = K := by
  cases bar with
  | false =>
    simp only [barKV, Bool.false_eq_true, if_false, List.nil_append] at h hlen
    exact exprBody_full0 hrec p hp e hwf hlen eof ts K h hK
  | true =>
    simp only [barKV, if_true, List.cons_append, List.nil_append, List.length_cons] at h hlen
    obtain ⟨t0, ts0, rfl, hk0, -, h0⟩ := tokKV_cons_inv h
    simp only at hk0
    obtain ⟨kv, rest, he, hkv⟩ := expr_head e
    have h0' := h0
    rw [he] at h0'
    obtain ⟨t1, ts1, rfl, hk1, -, -⟩ := tokKV_cons_inv h0'
    rw [exprBody_skip_bar hk0 (by rw [hk1]; exact hkv)]
    exact exprBody_full0 hrec p hp e hwf (by omega) eof _ K h0 hK

/-- **`parse_expression` reads every well-formed term and expression** (fuel above the token
    count) -/
theorem recOK (b : List String) : ∀ fuel, RecOK b (parseExpression b fuel) fuel
  | 0 => ⟨fun _ _ h => absurd h (Nat.not_lt_zero _), fun _ _ h => absurd h (Nat.not_lt_zero _),
      fun _ _ _ _ _ h => absurd h (Nat.not_lt_zero _)⟩
  | fuel + 1 => by
    have ih := recOK b fuel
    refine ⟨?_, ?_, ?_⟩
    · intro t hwf hlen eof ts K h hK
      exact exprBody_term ih t hwf (by omega) eof ts K h hK
    · intro e hwf hlen eof ts K h hK
      exact exprBody_chain ih e hwf (by omega) eof ts K h hK
    · intro p hp bar e hwf hlen eof ts K h hK
      exact exprBody_full ih p hp bar e hwf (by omega) eof ts K h hK

/-! ### rules -/

theorem docLines_all (kind : TK) (m : Text) (eof : Token) : ∀ (docs : List Text) (n : Nat) (acc : List Text)
    (ts : List Token) (K : List KV), docs.length < n →
    tokKV ts = (docs.map (docKV kind m)).flatten ++ K →
    (∀ k v K', K = (k, v) :: K' → k ≠ kind) → (K = [] → eof.kind ≠ kind) →
    ∃ ts', docLines kind n acc eof ts = .ok (acc ++ docs) ts' ∧ tokKV ts' = K := by
  intro docs
  induction docs with
  | nil =>
    intro n acc ts K hn h hK hE
    cases n with
    | zero => simp at hn
    | succ n =>
      simp only [List.map_nil, List.flatten_nil, List.nil_append] at h
      refine ⟨ts, ?_, h⟩
      cases ts with
      | nil =>
        have : eof.kind ≠ kind := hE (by simpa using h.symm)
        simp [docLines, current, this]
      | cons t ts =>
        have : t.kind ≠ kind := hK t.kind t.value (tokKV ts) (by rw [← h]; rfl)
        simp [docLines, this]
  | cons d docs ih =>
    intro n acc ts K hn h hK hE
    cases n with
    | zero => simp at hn
    | succ n =>
      simp only [List.map_cons, List.flatten_cons, docKV, List.cons_append, List.nil_append] at h
      obtain ⟨t1, ts1, rfl, hk1, -, h⟩ := tokKV_cons_inv h
      obtain ⟨t2, ts2, rfl, hk2, hv2, h⟩ := tokKV_cons_inv h
      simp only at hk1 hk2 hv2
      obtain ⟨ts', h', hts'⟩ := ih n (acc ++ [d]) ts2 K (by simp at hn; omega) h hK hE
      refine ⟨ts', ?_, hts'⟩
      simp [docLines, hk1, eat, hk2, hv2, h']

theorem docs_length_le (kind : TK) (m : Text) (docs : List Text) :
    docs.length ≤ ((docs.map (docKV kind m)).flatten).length := by
  induction docs with
  | nil => simp
  | cons d ds ih =>
    simp only [List.map_cons, List.flatten_cons, List.length_append, List.length_cons, docKV, List.length_nil]
    omega

theorem parseModifier_some {eof t : Token} {ts : List Token} {c : Nat} (hk : t.kind = .modifier)
    (hv : t.value = [c]) : parseModifier eof (t :: ts) = .ok (modifierBits [c]) ts := by
  simp [parseModifier, hk, hv]

theorem parseModifier_none {eof t : Token} {ts : List Token} (hk : t.kind ≠ .modifier) :
    parseModifier eof (t :: ts) = .ok 0 (t :: ts) := by
  simp [parseModifier, hk]

/-- one rule -/
theorem parseRule_one (b : List String) (eof : Token) (r : SRule) (hwf : r.WF) (n : Nat)
    (acc : List FRule) (ts : List Token) (K : List KV) (h : tokKV ts = r.kv ++ K) :
    ∃ ts', parseRules b (n + 1) acc eof ts = parseRules b n (dictSet acc (r.den b)) eof ts' ∧ tokKV ts' = K := by
  obtain ⟨hwdocs, -, hwmod, hwbody⟩ := hwf
  simp only [SRule.kv, List.append_assoc, List.cons_append, List.nil_append] at h
  -- the first token is not EOI
  have hfirst : ∃ t0 ts0, ts = t0 :: ts0 ∧ t0.kind ≠ .eoi := by
    cases hd : r.docs with
    | nil =>
      rw [hd] at h
      simp only [List.map_nil, List.flatten_nil, List.nil_append] at h
      obtain ⟨t1, ts1, rfl, hk1, -, -⟩ := tokKV_cons_inv h
      exact ⟨t1, ts1, rfl, by simp only at hk1; rw [hk1]; simp⟩
    | cons d ds =>
      rw [hd] at h
      simp only [List.map_cons, List.flatten_cons, docKV, List.cons_append, List.nil_append] at h
      obtain ⟨t1, ts1, rfl, hk1, -, -⟩ := tokKV_cons_inv h
      exact ⟨t1, ts1, rfl, by simp only at hk1; rw [hk1]; simp⟩
  obtain ⟨t0, ts0, rfl, hk0⟩ := hfirst
  obtain ⟨ts1, h1, hts1⟩ := docLines_all .ruleDoc sRDOC eof r.docs ((t0 :: ts0).length + 1) [] (t0 :: ts0) _
    (by
      have := congrArg List.length h
      have hle := docs_length_le .ruleDoc sRDOC r.docs
      simp only [tokKV_length, List.length_append] at this
      omega) h (by intro k v K' hK; simp at hK; rw [← hK.1.1]; simp) (by simp)
  obtain ⟨t2, ts2, rfl, hk2, hv2, h⟩ := tokKV_cons_inv hts1
  obtain ⟨t3, ts3, rfl, hk3, -, h⟩ := tokKV_cons_inv h
  simp only at hk2 hv2 hk3
  have hk2' : t2.kind ≠ .eoi := by rw [hk2]; simp
  -- the modifier
  have hmod : ∃ ts4, parseModifier eof ts3 = .ok ((r.mod.map fun c => modifierBits [c]).getD 0) ts4 ∧
      tokKV ts4 = (TK.lbrace, [123]) :: (barKV r.bar ++ (r.body.kv ++ ((TK.rbrace, [125]) :: K))) := by
    cases hm : r.mod with
    | none =>
      rw [hm] at h
      simp only [modKV, List.nil_append] at h
      obtain ⟨t4, ts4, rfl, hk4, -, h4⟩ := tokKV_cons_inv h
      exact ⟨t4 :: ts4, by rw [parseModifier_none (by simp only at hk4; rw [hk4]; simp)]; rfl, h⟩
    | some c =>
      rw [hm] at h
      simp only [modKV, List.cons_append, List.nil_append] at h
      obtain ⟨t4, ts4, rfl, hk4, hv4, h4⟩ := tokKV_cons_inv h
      exact ⟨ts4, by rw [parseModifier_some hk4 hv4]; rfl, h4⟩
  obtain ⟨ts4, h4, hts4⟩ := hmod
  obtain ⟨t5, ts5, rfl, hk5, -, h5⟩ := tokKV_cons_inv hts4
  simp only at hk5
  have hfuel : (barKV r.bar ++ r.body.kv).length < ts5.length + 1 := by
    have := congrArg List.length h5
    simp only [tokKV_length, List.length_append, List.length_cons] at this ⊢
    omega
  obtain ⟨ts6, h6, hts6⟩ := (recOK b (ts5.length + 1)).full PRECEDENCE_LOWEST (Or.inl rfl) r.bar r.body hwbody
    hfuel eof ts5 ((TK.rbrace, [125]) :: K) (by simpa [List.append_assoc] using h5) ⟨_, _, _, rfl, Or.inl rfl⟩
  obtain ⟨t7, ts7, rfl, hk7, -, h7⟩ := tokKV_cons_inv hts6
  simp only at hk7
  refine ⟨ts7, ?_, h7⟩
  simp only [parseRules, bind_eq, current_cons, hk0, if_false, h1, hk2']
  simp [eat, hk2, hk3, h4, hk5, h6, hk7, SRule.den, hv2]

theorem rule_kv_head (r : SRule) : ∃ k v rest, r.kv = (k, v) :: rest ∧ (k = .ruleDoc ∨ k = .identifier) := by
  cases hd : r.docs with
  | nil =>
    exact ⟨.identifier, r.name, (.assignOp, [61]) :: (modKV r.mod ++ [(.lbrace, [123])] ++ barKV r.bar ++
      r.body.kv ++ [(.rbrace, [125])]), by simp [SRule.kv, hd], Or.inr rfl⟩
  | cons d ds =>
    exact ⟨.ruleDoc, sRDOC, (.commentText, d) :: ((ds.map (docKV .ruleDoc sRDOC)).flatten ++
      [(.identifier, r.name), (.assignOp, [61])] ++ modKV r.mod ++ [(.lbrace, [123])] ++ barKV r.bar ++
      r.body.kv ++ [(.rbrace, [125])]), by simp [SRule.kv, hd, docKV], Or.inl rfl⟩

theorem rule_kv_length_pos (r : SRule) : 0 < r.kv.length := by
  obtain ⟨k, v, rest, h, -⟩ := rule_kv_head r
  simp [h]

/-- all the rules, then the trailing doc comments, then the end of the token list -/
theorem parseRules_all (b : List String) (eof : Token) (heof : eof.kind = .eoi) (trailing : List Text) :
    ∀ (rs : List SRule), (∀ r ∈ rs, r.WF) → ∀ (n : Nat) (acc : List FRule) (ts : List Token),
    rs.length < n →
    tokKV ts = (rs.map SRule.kv).flatten ++ (trailing.map (docKV .ruleDoc sRDOC)).flatten →
    parseRules b n acc eof ts = .ok (rs.foldl (fun acc r => dictSet acc (r.den b)) acc) [] := by
  intro rs
  induction rs with
  | nil =>
    intro _ n acc ts hn h
    cases n with
    | zero => simp at hn
    | succ n =>
      simp only [List.map_nil, List.flatten_nil, List.nil_append] at h
      cases ts with
      | nil => simp [parseRules, current, heof]
      | cons t0 ts0 =>
        have hk0 : t0.kind = .ruleDoc := by
          cases trailing with
          | nil => simp at h
          | cons d ds =>
            simp only [List.map_cons, List.flatten_cons, docKV, List.cons_append] at h
            obtain ⟨t1, ts1, h1, hk1, -, -⟩ := tokKV_cons_inv h
            simp only [List.cons.injEq] at h1
            rw [h1.1]; exact hk1
        obtain ⟨ts1, h1, hts1⟩ := docLines_all .ruleDoc sRDOC eof trailing ((t0 :: ts0).length + 1) [] (t0 :: ts0) []
          (by
            have := congrArg List.length h
            have hle := docs_length_le .ruleDoc sRDOC trailing
            simp only [tokKV_length] at this
            omega) (by simpa using h) (by intro k v K' hK; simp at hK) (by intro _; rw [heof]; simp)
        have hnil : ts1 = [] := by cases ts1 with | nil => rfl | cons a l => simp at hts1
        subst hnil
        have : t0.kind ≠ .eoi := by rw [hk0]; simp
        simp only [parseRules, bind_eq, current_cons, this, if_false, h1]
        simp [current, heof]
  | cons r rs ih =>
    intro hwf n acc ts hn h
    cases n with
    | zero => simp at hn
    | succ n =>
      simp only [List.map_cons, List.flatten_cons, List.append_assoc] at h
      obtain ⟨ts', h', hts'⟩ := parseRule_one b eof r (hwf r (by simp)) n acc ts _ h
      rw [h', List.foldl_cons]
      exact ih (fun q hq => hwf q (by simp [hq])) n _ ts' (by simp at hn; omega) hts'

theorem rules_length_le (rs : List SRule) : rs.length ≤ ((rs.map SRule.kv).flatten).length := by
  induction rs with
  | nil => simp
  | cons r rs ih =>
    have := rule_kv_length_pos r
    simp only [List.map_cons, List.flatten_cons, List.length_append, List.length_cons]; omega

/-- **the parser half of the round trip**: on any token list whose kinds and values are those of
    a well-formed source-level grammar, `Parser(tokens, builtins).parse()` returns the rule table
    and the grammar doc the grammar denotes -/
theorem parseTokens_roundtrip (b : List String) (g : SGrammar) (hwf : g.WF) (eof : Token)
    (heof : eof.kind = .eoi) (ts : List Token) (h : tokKV ts = g.kv) :
    parseTokens b eof ts = .ok (g.den b) [] := by
  obtain ⟨-, hwrules, -⟩ := hwf
  simp only [SGrammar.kv, List.append_assoc] at h
  -- what follows the grammar docs does not start with a grammar-doc token
  have hK : ∀ k v K', (g.rules.map SRule.kv).flatten ++ (g.trailing.map (docKV .ruleDoc sRDOC)).flatten = (k, v) :: K' →
      k ≠ .grammarDoc := by
    intro k v K' hK
    cases hr : g.rules with
    | nil =>
      rw [hr] at hK
      cases ht : g.trailing with
      | nil => rw [ht] at hK; simp at hK
      | cons d ds =>
        rw [ht] at hK
        simp [docKV] at hK
        rw [← hK.1.1]; simp
    | cons r rs =>
      rw [hr] at hK
      obtain ⟨k', v', rest, hrk, hk'⟩ := rule_kv_head r
      simp [hrk] at hK
      rw [← hK.1.1]
      rcases hk' with rfl | rfl <;> simp
  obtain ⟨ts1, h1, hts1⟩ := docLines_all .grammarDoc sGDOC eof g.gdocs (ts.length + 1) [] ts _
    (by
      have := congrArg List.length h
      have hle := docs_length_le .grammarDoc sGDOC g.gdocs
      simp only [tokKV_length, List.length_append] at this
      omega) h hK (by intro _; rw [heof]; simp)
  have h2 := parseRules_all b eof heof g.trailing g.rules hwrules (ts1.length + 1) [] ts1
    (by
      have := congrArg List.length hts1
      have hle := rules_length_le g.rules
      simp only [tokKV_length, List.length_append] at this
      omega) hts1
  simp [parseTokens, h1, h2, SGrammar.den]

end PRT
end Front
end Pest
