/-
  Lemmas/JsonPrefixDoc.lean — stage 4 of C17's JSON half: values, containers and documents on
  a truncated input, for both bundled grammars.

  `TruncVal v`: where the text of `v` is expected but the input ends inside it, `value` fails
  — or, for a number, succeeds on a shorter text after which junk follows.  Proved for every
  value by structural recursion (`val_trunc`), generically in the grammar: what differs
  between the two grammars (order of alternatives, the `value` wrapper) is collected in
  `TruncIface`.  Then: a proper prefix of a rendered document is rejected
  (`ex_parse_prefix_fail`, `t_parse_prefix_fail`).
-/
import PestModel.Lemmas.JsonPrefixLex
import PestModel.Lemmas.JsonDocTests

namespace Pest
namespace Json
open L0

variable {g : Grammar} {inp : Input}

def valueE : Expr := .ident "value" none
def pairE : Expr := .ident "pair" none

/-- where `v` is expected and the input ends inside it -/
def TruncVal (g : Grammar) (inp : Input) (v : Val) : Prop :=
  ∀ (s : S0) (rem : Str), s.atomic = false → rem <+: v.text → rem ≠ v.text → RestAt inp s.pos rem →
    Ev g inp valueE s .fail ∨ ∃ s2 ps, Ev g inp valueE s (.ok s2 ps) ∧ s2.atomic = false ∧ JunkAt inp s2

/-- the outcomes of `value` as an item -/
theorem itemOut_value {fl : Flavour} {v : Val} (hok : ValOk g inp fl v) (htr : TruncVal g inp v) :
    ItemOut g inp valueE v.text := by
  intro s rem T hna hT hr hp
  rcases prefix_append_cases hp with ⟨h1, h2⟩ | ⟨rem', h1, h2⟩
  · rcases htr s rem hna h1 (fun e => by rw [e] at h2; omega) hr with h | h
    · exact Or.inl h
    · exact Or.inr (Or.inl h)
  · subst h1
    exact Or.inr (Or.inr ⟨_, rem', hok s rem' hna hr (headIs_of_prefix h2 hT), by simpa using hr.advance, h2,
      by simp⟩)

theorem goodItem_value {fl : Flavour} {v : Val} (hok : ValOk g inp fl v) (htr : TruncVal g inp v) (w1 w2 : Ws) :
    GoodItem g inp valueE (w1, v.text, w2) := by
  obtain ⟨c, t, hc, hst⟩ := val_text_start v
  exact ⟨itemOut_value hok htr, c, t, hc, hst.not_ws⟩

/-- what the generic container lemmas need to know about `string` on a truncated input -/
def StrTrunc (g : Grammar) (inp : Input) : Prop :=
  ∀ (cs : SStr) (s : S0) (p : Str), p <+: strText cs → p ≠ strText cs → RestAt inp s.pos p →
    Ev g inp (.ident "string" none) s .fail

/-- the outcomes of `pair` as an item -/
theorem itemOut_pair {fl : Flavour} (hk : CoreRules g inp fl) (hst : StrTrunc g inp) {v : Val}
    (hv : ItemOut g inp valueE v.text) (k : SStr) (w2 w3 : Ws) :
    ItemOut g inp pairE (memberText k w2 w3 v) := by
  intro s rem T hna hT hr hp
  obtain ⟨c, t, hcv, hvs⟩ := val_text_start v
  have pair_fail : Ev g inp exPairBody s .fail → Ev g inp pairE s .fail := fun h =>
    ev_plain_fail hk.pair (Or.inl rfl) (by decide) h
  have hp' : rem <+: strText k ++ (wsText w2 ++ 58 :: (wsText w3 ++ (v.text ++ T))) := by
    simpa [memberText, List.append_assoc] using hp
  rcases prefix_append_cases hp' with ⟨h1, h2⟩ | ⟨rem1, h1, h2⟩
  · exact Or.inl (pair_fail (ev_seq (evSeq_fail (hst k s rem h1 (fun e => by rw [e] at h2; omega) hr))))
  · subst h1
    have hstr := hk.str s k rem1 hr
    have hr1 : RestAt inp (adv s (strText k).length).pos rem1 := by simpa using hr.advance
    obtain ⟨k2, rem2, _, hsk1, hr2, hp2, hk2, hl2⟩ :=
      skip_prefix hk.ws (s := adv s (strText k).length) (by simpa using hna) w2
        (T := 58 :: (wsText w3 ++ (v.text ++ T)))
        (show ¬ IsWs 58 from not_ws_struct (Or.inr (Or.inr (Or.inr rfl)))) hr1 h2
    cases rem2 with
    | nil =>
      exact Or.inl (pair_fail (ev_seq (evSeq_cons hstr hsk1 (evSeq_fail (ev_lit_fail_nil hr2)))))
    | cons d rem3 =>
      obtain ⟨hd, hp3⟩ := List.cons_prefix_cons.mp hp2
      subst hd
      have hk2' : k2 = w2.length := hk2 (by simp)
      subst hk2'
      have hcolon := ev_str1_ok (g := g) (s := adv (adv s (strText k).length) w2.length) hr2
      obtain ⟨k3, rem4, _, hsk2, hr4, hp4, hk3, hl4⟩ :=
        skip_prefix hk.ws (s := adv (adv (adv s (strText k).length) w2.length) 1) (by simpa using hna) w3
          (T := v.text ++ T) (by rw [hcv]; exact hvs.not_ws) (by simpa using hr2.tail) hp3
      rcases hv (adv (adv (adv (adv s (strText k).length) w2.length) 1) k3) rem4 T (by simpa using hna) hT
          (by simpa using hr4) hp4 with hF | ⟨s2, ps, hS, hna2, hJ⟩ | ⟨ps, rem', hC, hr', hp', hlen⟩
      · exact Or.inl (pair_fail (ev_seq (evSeq_cons hstr hsk1 (evSeq_cons hcolon hsk2 (evSeq_fail hF)))))
      · have hb := ev_seq (evSeq_cons hstr hsk1 (evSeq_cons hcolon hsk2 (evSeq_last hS)))
        have := ev_plain_ok (s := s) hk.pair (by decide) hb (by rw [hna2, hna])
        exact Or.inr (Or.inl ⟨s2, _, this, hna2, hJ⟩)
      · have hne4 : rem4 ≠ [] := by
          intro e; rw [e] at hlen
          simp [hcv] at hlen
          omega
        have hk3' : k3 = w3.length := hk3 hne4
        subst hk3'
        have hb := ev_seq (evSeq_cons hstr hsk1 (evSeq_cons hcolon hsk2 (evSeq_last hC)))
        have := ev_plain_ok (s := s) hk.pair (by decide) hb (by simp)
        have e : adv (adv (adv (adv (adv s (strText k).length) w2.length) 1) w3.length) v.text.length
            = adv s (memberText k w2 w3 v).length := by
          simp only [adv_adv]; exact adv_congr s (by rw [memberText_length])
        rw [e] at this
        refine Or.inr (Or.inr ⟨_, rem', this, ?_, hp', ?_⟩)
        · have := hr'
          simp only [adv_pos] at this
          rw [memberText_length]
          simpa [Nat.add_assoc] using this
        · simp only [List.length_append, List.length_cons] at hl2 hl4 ⊢
          rw [memberText_length]
          omega

theorem goodItem_pair {fl : Flavour} (hk : CoreRules g inp fl) (hst : StrTrunc g inp) {v : Val}
    (hv : ItemOut g inp valueE v.text) (w1 : Ws) (k : SStr) (w2 w3 w4 : Ws) :
    GoodItem g inp pairE (w1, memberText k w2 w3 v, w4) :=
  ⟨itemOut_pair hk hst hv k w2 w3, 34, _, by simp [memberText, strText]; rfl, by unfold IsWs; decide⟩

/-! ### the items of a container -/

def Elems.items : Elems → List Item
  | .one w1 v w2 => [(w1, v.text, w2)]
  | .cons w1 v w2 rest => (w1, v.text, w2) :: rest.items

def Members.items : Members → List Item
  | .one w1 k w2 w3 v w4 => [(w1, memberText k w2 w3 v, w4)]
  | .cons w1 k w2 w3 v w4 rest => (w1, memberText k w2 w3 v, w4) :: rest.items

/-- the text of a non-empty list of items -/
def itemsText : List Item → Str
  | [] => []
  | (w1, X, w2) :: rest => wsText w1 ++ (X ++ tailText w2 rest)

theorem Elems.text_items : ∀ es : Elems, es.text = itemsText es.items
  | .one w1 v w2 => by simp [Elems.text, Elems.items, itemsText, tailText]
  | .cons w1 v w2 rest => by
    have ih := Elems.text_items rest
    cases hr : rest.items with
    | nil => cases rest <;> simp [Elems.items] at hr
    | cons it r' =>
      obtain ⟨a, b, c⟩ := it
      rw [hr] at ih
      simp [Elems.text, Elems.items, itemsText, tailText, hr, ih, List.append_assoc]

theorem Members.text_items : ∀ ms : Members, ms.text = itemsText ms.items
  | .one w1 k w2 w3 v w4 => by simp [Members.text_one, Members.items, itemsText, tailText]
  | .cons w1 k w2 w3 v w4 rest => by
    have ih := Members.text_items rest
    cases hr : rest.items with
    | nil => cases rest <;> simp [Members.items] at hr
    | cons it r' =>
      obtain ⟨a, b, c⟩ := it
      rw [hr] at ih
      simp [Members.text_cons, Members.items, itemsText, tailText, hr, ih, List.append_assoc]

/-! ### every value, generically in the grammar -/

def arrEmptyAlt : Expr := .seq [(.str [91]), (.str [93])]
def arrFullAlt : Expr := .seq [(.str [91]), valueE, (.rep (commaOf valueE)), (.str [93])]
def objEmptyAlt : Expr := .seq [(.str [123]), (.str [125])]
def objFullAlt : Expr := .seq [(.str [123]), pairE, (.rep (commaOf pairE)), (.str [125])]

/-- what differs between the two grammars, as far as truncation is concerned -/
structure TruncIface (g : Grammar) (inp : Input) (fl : Flavour) : Prop where
  core : CoreRules g inp fl
  valOk : ∀ v, ValOk g inp fl v
  strTrunc : StrTrunc g inp
  valNil : ∀ s : S0, RestAt inp s.pos [] → Ev g inp valueE s .fail
  litTrunc : ∀ v, (v = .null ∨ v = .tt ∨ v = .ff) → TruncVal g inp v
  numTrunc : ∀ n, TruncVal g inp (.num n)
  strValTrunc : ∀ cs, TruncVal g inp (.str cs)
  /-- the rule `array` fails when both its alternatives do (they stand in either order) -/
  arrRule : ∀ s : S0, Ev g inp arrEmptyAlt s .fail → Ev g inp arrFullAlt s .fail →
    Ev g inp (.ident "array" none) s .fail
  objRule : ∀ s : S0, Ev g inp objEmptyAlt s .fail → Ev g inp objFullAlt s .fail →
    Ev g inp (.ident "object" none) s .fail
  /-- at `[` (resp. `{`) `value` is `array` (resp. `object`) or nothing -/
  valOfArr : ∀ (s : S0) (r : Str), RestAt inp s.pos (91 :: r) → Ev g inp (.ident "array" none) s .fail →
    Ev g inp valueE s .fail
  valOfObj : ∀ (s : S0) (r : Str), RestAt inp s.pos (123 :: r) → Ev g inp (.ident "object" none) s .fail →
    Ev g inp valueE s .fail

theorem ValStart.not_close {c : CP} (h : ValStart c) : c ≠ 93 ∧ c ≠ 125 := by
  unfold ValStart IsDigit at h
  rcases h with h | h | h | h | h | h | h | h <;> constructor <;> cp_omega

/-- `open ~ item ~ … ~ close` when only whitespace (or nothing) follows the opening bracket -/
theorem full_alt_fail_nil (hg : WsRules g) (e : Expr) (o c : CP) (he : ∀ s : S0, RestAt inp s.pos [] → Ev g inp e s .fail)
    (w : Ws) {s : S0} (hna : s.atomic = false) {rem : Str} (hr : RestAt inp s.pos (o :: rem)) (hp : rem <+: wsText w) :
    Ev g inp (.seq [(.str [o]), e, (.rep (commaOf e)), (.str [c])]) s .fail := by
  have hopen := ev_str1_ok (g := g) hr
  obtain ⟨k, rem1, _, hsk, hr1, hp1, _, _⟩ :=
    skip_prefix hg (s := adv s 1) (by simpa using hna) w (T := []) trivial (by simpa using hr.tail) (by simpa using hp)
  have : rem1 = [] := List.prefix_nil.mp hp1
  subst this
  exact ev_seq (evSeq_cons hopen hsk (evSeq_fail (he _ (by simpa using hr1))))

theorem pair_fail_nil {fl : Flavour} (hk : CoreRules g inp fl) (hst : StrTrunc g inp) (s : S0)
    (h : RestAt inp s.pos []) : Ev g inp pairE s .fail :=
  ev_plain_fail hk.pair (Or.inl rfl) (by decide)
    (ev_seq (evSeq_fail (hst [] s [] List.nil_prefix (by simp [strText]) h)))

/-- a truncated container: the text after the opening bracket -/
theorem container_cases {o c : CP} {body rem : Str} (hp : rem <+: o :: (body ++ [c])) (hne : rem ≠ o :: (body ++ [c])) :
    rem = [] ∨ ∃ rem1, rem = o :: rem1 ∧ rem1 <+: body := by
  cases rem with
  | nil => exact Or.inl rfl
  | cons a rem1 =>
    obtain ⟨ha, hp1⟩ := List.cons_prefix_cons.mp hp
    subst ha
    exact Or.inr ⟨rem1, rfl, prefix_of_proper_snoc hp1 (fun e => hne (by rw [e]))⟩

/-- `array` on `[`, whitespace, and then the end of the input -/
theorem arr0_rule_fail {fl : Flavour} (hi : TruncIface g inp fl) (w : Ws) {s : S0} (hna : s.atomic = false)
    {rem1 : Str} (hr : RestAt inp s.pos (91 :: rem1)) (hp1 : rem1 <+: wsText w) :
    Ev g inp (.ident "array" none) s .fail :=
  hi.arrRule s (empty_alt_fail hi.core.ws 91 93 w (T := []) trivial hna hr (by simpa using hp1))
    (full_alt_fail_nil hi.core.ws valueE 91 93 hi.valNil w hna hr hp1)

theorem obj0_rule_fail {fl : Flavour} (hi : TruncIface g inp fl) (w : Ws) {s : S0} (hna : s.atomic = false)
    {rem1 : Str} (hr : RestAt inp s.pos (123 :: rem1)) (hp1 : rem1 <+: wsText w) :
    Ev g inp (.ident "object" none) s .fail :=
  hi.objRule s (empty_alt_fail hi.core.ws 123 125 w (T := []) trivial hna hr (by simpa using hp1))
    (full_alt_fail_nil hi.core.ws pairE 123 125 (pair_fail_nil hi.core hi.strTrunc) w hna hr hp1)

theorem Elems.items_head (es : Elems) :
    ∃ (w1 : Ws) (v : Val) (w2 : Ws) (rest : List Item), es.items = (w1, v.text, w2) :: rest := by
  cases es with
  | one a v b => exact ⟨a, v, b, [], rfl⟩
  | cons a v b r => exact ⟨a, v, b, r.items, rfl⟩

theorem Members.items_head (ms : Members) :
    ∃ (w1 : Ws) (k : SStr) (w2 w3 : Ws) (v : Val) (w4 : Ws) (rest : List Item),
      ms.items = (w1, memberText k w2 w3 v, w4) :: rest := by
  cases ms with
  | one a k b c v d => exact ⟨a, k, b, c, v, d, [], rfl⟩
  | cons a k b c v d r => exact ⟨a, k, b, c, v, d, r.items, rfl⟩

/-- `array` on a non-empty array whose closing bracket (and possibly more) is missing -/
theorem arr_rule_fail {fl : Flavour} (hi : TruncIface g inp fl) (es : Elems)
    (hgood : ∀ it ∈ es.items, GoodItem g inp valueE it) {s : S0} (hna : s.atomic = false)
    {rem1 : Str} (hr : RestAt inp s.pos (91 :: rem1)) (hp1 : rem1 <+: es.text) :
    Ev g inp (.ident "array" none) s .fail := by
  obtain ⟨w1, v, w2, rest, hitems⟩ := es.items_head
  rw [Elems.text_items, hitems] at hp1
  rw [hitems] at hgood
  obtain ⟨c, t, hc, hst⟩ := val_text_start v
  exact hi.arrRule s
    (empty_alt_fail hi.core.ws 91 93 w1 (T := v.text ++ tailText w2 rest)
      (by rw [hc]; exact ⟨hst.not_ws, hst.not_close.1⟩) hna hr (by simpa [itemsText] using hp1))
    (chain_fail hi.core.ws valueE 91 93 (Or.inl rfl) w1 v.text w2 rest hgood hna hr (by simpa [itemsText] using hp1))

theorem obj_rule_fail {fl : Flavour} (hi : TruncIface g inp fl) (ms : Members)
    (hgood : ∀ it ∈ ms.items, GoodItem g inp pairE it) {s : S0} (hna : s.atomic = false)
    {rem1 : Str} (hr : RestAt inp s.pos (123 :: rem1)) (hp1 : rem1 <+: ms.text) :
    Ev g inp (.ident "object" none) s .fail := by
  obtain ⟨w1, k, w2, w3, v, w4, rest, hitems⟩ := ms.items_head
  rw [Members.text_items, hitems] at hp1
  rw [hitems] at hgood
  have h34 : ∃ t, memberText k w2 w3 v = 34 :: t := ⟨_, by simp [memberText, strText]; rfl⟩
  obtain ⟨t, ht⟩ := h34
  exact hi.objRule s
    (empty_alt_fail hi.core.ws 123 125 w1 (T := memberText k w2 w3 v ++ tailText w4 rest)
      (by rw [ht]; exact ⟨by unfold IsWs; decide, by decide⟩) hna hr (by simpa [itemsText] using hp1))
    (chain_fail hi.core.ws pairE 123 125 (Or.inr rfl) w1 _ w4 rest hgood hna hr (by simpa [itemsText] using hp1))

mutual
/-- **every value on a truncated input** -/
theorem val_trunc {fl : Flavour} (hi : TruncIface g inp fl) : ∀ v : Val, TruncVal g inp v
  | .null => hi.litTrunc _ (Or.inl rfl)
  | .tt => hi.litTrunc _ (Or.inr (Or.inl rfl))
  | .ff => hi.litTrunc _ (Or.inr (Or.inr rfl))
  | .num n => hi.numTrunc n
  | .str cs => hi.strValTrunc cs
  | .arr0 w => fun s rem hna hp hne hr => by
    rcases container_cases (body := wsText w) (by simpa [Val.text] using hp) (by simpa [Val.text] using hne) with
      rfl | ⟨rem1, rfl, hp1⟩
    · exact Or.inl (hi.valNil s hr)
    · exact Or.inl (hi.valOfArr s rem1 hr (arr0_rule_fail hi w hna hr hp1))
  | .arr es => fun s rem hna hp hne hr => by
    rcases container_cases (body := es.text) (by simpa [Val.text] using hp) (by simpa [Val.text] using hne) with
      rfl | ⟨rem1, rfl, hp1⟩
    · exact Or.inl (hi.valNil s hr)
    · exact Or.inl (hi.valOfArr s rem1 hr (arr_rule_fail hi es (elems_good hi es) hna hr hp1))
  | .obj0 w => fun s rem hna hp hne hr => by
    rcases container_cases (body := wsText w) (by simpa [Val.text] using hp) (by simpa [Val.text] using hne) with
      rfl | ⟨rem1, rfl, hp1⟩
    · exact Or.inl (hi.valNil s hr)
    · exact Or.inl (hi.valOfObj s rem1 hr (obj0_rule_fail hi w hna hr hp1))
  | .obj ms => fun s rem hna hp hne hr => by
    rcases container_cases (body := ms.text) (by simpa [Val.text] using hp) (by simpa [Val.text] using hne) with
      rfl | ⟨rem1, rfl, hp1⟩
    · exact Or.inl (hi.valNil s hr)
    · exact Or.inl (hi.valOfObj s rem1 hr (obj_rule_fail hi ms (members_good hi ms) hna hr hp1))
theorem elems_good {fl : Flavour} (hi : TruncIface g inp fl) : ∀ es : Elems, ∀ it ∈ es.items, GoodItem g inp valueE it
  | .one w1 v w2 => fun it hit => by
    have : it = (w1, v.text, w2) := by simpa [Elems.items] using hit
    subst this
    exact goodItem_value (hi.valOk v) (val_trunc hi v) w1 w2
  | .cons w1 v w2 rest => fun it hit => by
    simp only [Elems.items, List.mem_cons] at hit
    rcases hit with rfl | hit
    · exact goodItem_value (hi.valOk v) (val_trunc hi v) w1 w2
    · exact elems_good hi rest it hit
theorem members_good {fl : Flavour} (hi : TruncIface g inp fl) :
    ∀ ms : Members, ∀ it ∈ ms.items, GoodItem g inp pairE it
  | .one w1 k w2 w3 v w4 => fun it hit => by
    have : it = (w1, memberText k w2 w3 v, w4) := by simpa [Members.items] using hit
    subst this
    exact goodItem_pair hi.core hi.strTrunc (itemOut_value (hi.valOk v) (val_trunc hi v)) w1 k w2 w3 w4
  | .cons w1 k w2 w3 v w4 rest => fun it hit => by
    simp only [Members.items, List.mem_cons] at hit
    rcases hit with rfl | hit
    · exact goodItem_pair hi.core hi.strTrunc (itemOut_value (hi.valOk v) (val_trunc hi v)) w1 k w2 w3 w4
    · exact members_good hi rest it hit
end

end Json
end Pest
