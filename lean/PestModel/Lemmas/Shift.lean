/-
  Lemmas/Shift.lean — shift invariance of the interpreter model L1 and of the generated-code
  model LG (property C16).

  `Shifted k inp inp'`   `inp'` is `inp` without its first `k` elements.
  `ShiftRel k c c'`      `c` (over `inp`) is `c'` (over `inp'`) with every position moved by `k`:
                         current position, position history, furthest-failure position (the
                         sentinel `-1` stays `-1`); everything else is equal.
  `ResRel k r r'`        same verdict, `ShiftRel`-related end states, pairs equal up to adding `k`
                         to every start/stop.
  Every primitive matcher is position-relative (`startsWithAt`, `inp[p]?`, `slice`, `findFrom`,
  `skipUntilPos`, `optMatch*`, `matchAll`, `pos == inp.size`); the only node that is not is
  `.soiB` (`pos == 0`), which the hypothesis `soiFree` excludes.
-/
import PestModel.Hyps
import PestModel.Gen

namespace Pest

/-! ### the suffix of an input -/

structure Shifted (k : Nat) (inp inp' : Input) : Prop where
  size : inp.size = inp'.size + k
  get : ∀ p, inp[p + k]? = inp'[p]?

theorem shifted_extract {k : Nat} {inp : Input} (h : k ≤ inp.size) :
    Shifted k inp (inp.extract k inp.size) := by
  constructor
  · simp; omega
  · intro p
    rw [Array.getElem?_extract]
    by_cases hp : p < min inp.size inp.size - k
    · simp only [hp, ↓reduceIte]; rw [Nat.add_comm]
    · simp only [hp, ↓reduceIte]
      apply Array.getElem?_eq_none
      simp at hp; omega

theorem foldl_getD_rel {k : Nat} {f f' : Option Nat → Str → Option Nat}
    (h : ∀ b s, f (b.map (· + k)) s = (f' b s).map (· + k)) (subs : List Str) (n n' : Nat)
    (hn : n = n' + k) : (subs.foldl f none).getD n = (subs.foldl f' none).getD n' + k := by
  have key : ∀ (subs : List Str) (b : Option Nat),
      subs.foldl f (b.map (· + k)) = (subs.foldl f' b).map (· + k) := by
    intro subs
    induction subs with
    | nil => intro b; rfl
    | cons s rest ih => intro b; simp only [List.foldl_cons]; rw [h, ih]
  have := key subs none
  simp only [Option.map_none] at this
  rw [this]
  cases subs.foldl f' none with
  | none => simpa using hn
  | some q => simp

section prim
variable {k : Nat} {inp inp' : Input} (hS : Shifted k inp inp')
include hS

theorem startsWithAt_shift (x : Str) : ∀ p, startsWithAt inp x (p + k) = startsWithAt inp' x p := by
  induction x with
  | nil => intro p; simp only [startsWithAt, hS.size]; simp
  | cons c rest ih =>
    intro p
    simp only [startsWithAt, hS.get]
    rw [show p + k + 1 = (p + 1) + k by omega, ih]

theorem startsWithAtCI_shift (x : Str) : ∀ p, startsWithAtCI inp x (p + k) = startsWithAtCI inp' x p := by
  induction x with
  | nil => intro p; simp only [startsWithAtCI, hS.size]; simp
  | cons c rest ih =>
    intro p
    simp only [startsWithAtCI, hS.get]
    rw [show p + k + 1 = (p + 1) + k by omega, ih]

theorem slice_shift (a b : Nat) : slice inp (a + k) (b + k) = slice inp' a b := by
  unfold slice
  apply List.ext_getElem?
  intro i
  simp only [Array.getElem?_toList, Array.getElem?_extract]
  have hsz := hS.size
  by_cases h1 : i < min b inp'.size - a
  · have h2 : i < min (b + k) inp.size - (a + k) := by omega
    simp only [h1, h2, ↓reduceIte]
    rw [show a + k + i = (a + i) + k by omega, hS.get]
  · have h2 : ¬ i < min (b + k) inp.size - (a + k) := by omega
    simp only [h1, h2, ↓reduceIte]

theorem findFrom_go_shift (sub : Str) : ∀ n p,
    findFrom.go inp sub n (p + k) = (findFrom.go inp' sub n p).map (· + k) := by
  intro n
  induction n with
  | zero => intro p; simp [findFrom.go]
  | succ n ih =>
    intro p
    simp only [findFrom.go, startsWithAt_shift hS]
    by_cases hm : startsWithAt inp' sub p = true
    · simp [hm]
    · simp only [hm, Bool.false_eq_true, ↓reduceIte]
      rw [show p + k + 1 = (p + 1) + k by omega, ih]

theorem findFrom_shift (sub : Str) (p : Nat) :
    findFrom inp sub (p + k) = (findFrom inp' sub p).map (· + k) := by
  unfold findFrom
  have hsz := hS.size
  by_cases h : p > inp'.size
  · have h' : p + k > inp.size := by omega
    simp [h, h']
  · have h' : ¬ p + k > inp.size := by omega
    simp only [h, h', ↓reduceIte]
    rw [show inp.size + 1 - (p + k) = inp'.size + 1 - p by omega]
    exact findFrom_go_shift hS sub _ p

theorem skipUntilPos_shift (subs : List Str) (p : Nat) :
    L1.skipUntilPos inp subs (p + k) = L1.skipUntilPos inp' subs p + k := by
  unfold L1.skipUntilPos
  refine foldl_getD_rel ?_ subs _ _ hS.size
  intro b s
  simp only [findFrom_shift hS]
  cases findFrom inp' s p with
  | none => rfl
  | some q =>
    cases b with
    | none => rfl
    | some r =>
      simp only [Option.map_some]
      by_cases h : q < r
      · have : q + k < r + k := by omega
        simp [h, this]
      · have : ¬ q + k < r + k := by omega
        simp [h, this]

theorem matchAll_shift (ls : List Str) : ∀ p,
    L1.matchAll inp ls (p + k) = (L1.matchAll inp' ls p).map (· + k) := by
  induction ls with
  | nil => intro p; rfl
  | cons l rest ih =>
    intro p
    simp only [L1.matchAll, startsWithAt_shift hS]
    by_cases hm : startsWithAt inp' l p = true
    · simp only [hm, ↓reduceIte]
      rw [show p + k + l.length = (p + l.length) + k by omega, ih]
    · simp [hm]

theorem optMatchOnce_shift (g : Grammar) (alts : List Alt) (p : Nat) :
    L1.optMatchOnce g inp alts (p + k) = (L1.optMatchOnce g inp' alts p).map (· + k) := by
  unfold L1.optMatchOnce
  have e1 : (fun x => startsWithAt inp x (p + k)) = (fun x => startsWithAt inp' x p) := by
    funext x; exact startsWithAt_shift hS x p
  have e2 : (fun x => startsWithAtCI inp x (p + k)) = (fun x => startsWithAtCI inp' x p) := by
    funext x; exact startsWithAtCI_shift hS x p
  simp only [e1, e2, hS.get]
  split
  · simp only [Option.map_some]; congr 1; omega
  · split
    · simp only [Option.map_some]; congr 1; omega
    · cases inp'[p]? with
      | none => rfl
      | some c =>
        simp only []
        split
        · simp only [Option.map_some]; congr 1; omega
        · split
          · simp only [Option.map_some]; congr 1; omega
          · rfl

theorem optMatchStar_shift (g : Grammar) (alts : List Alt) : ∀ n p,
    L1.optMatchStar g inp alts n (p + k) = L1.optMatchStar g inp' alts n p + k := by
  intro n
  induction n with
  | zero => intro p; rfl
  | succ n ih =>
    intro p
    simp only [L1.optMatchStar, optMatchOnce_shift hS]
    cases L1.optMatchOnce g inp' alts p with
    | none => rfl
    | some q =>
      simp only [Option.map_some]
      by_cases h : q > p
      · have : q + k > p + k := by omega
        simp only [h, this, ↓reduceIte]; exact ih q
      · have : ¬ q + k > p + k := by omega
        simp only [h, this, ↓reduceIte]

theorem optMatch_shift (g : Grammar) (alts : List Alt) (star : Bool) (p : Nat) :
    L1.optMatch g inp alts star (p + k) = (L1.optMatch g inp' alts star p).map (· + k) := by
  unfold L1.optMatch
  by_cases he : alts.isEmpty = true
  · simp [he]
  · simp only [he, Bool.false_eq_true, ↓reduceIte]
    by_cases hs : star = true
    · simp only [hs, ↓reduceIte, Option.map_some]
      rw [show inp.size + 1 - (p + k) = inp'.size + 1 - p by have := hS.size; omega,
        optMatchStar_shift hS]
    · simp only [hs, Bool.false_eq_true, ↓reduceIte]
      exact optMatchOnce_shift hS g alts p

end prim

/-! ### pairs -/

mutual
/-- add `k` to every start/stop of a pair -/
def Pair.shift (k : Nat) : Pair → Pair
  | .mk n m s e ch t => .mk n m (s + k) (e + k) (shiftL k ch) t
def shiftL (k : Nat) : List Pair → List Pair
  | [] => []
  | p :: ps => p.shift k :: shiftL k ps
end

theorem shiftL_eq_map (k : Nat) (ps : List Pair) : shiftL k ps = ps.map (Pair.shift k) := by
  induction ps with
  | nil => rfl
  | cons p ps ih => simp [shiftL, ih]

theorem shiftL_append (k : Nat) (a b : List Pair) : shiftL k (a ++ b) = shiftL k a ++ shiftL k b := by
  simp [shiftL_eq_map]

mutual
theorem visible_shift (k : Nat) : ∀ p : Pair, (p.shift k).visible = shiftL k p.visible
  | .mk n m s e ch t => by
    by_cases h : (hasBit m COMPOUND || hasBit m NONATOMIC) = true
    · simp [Pair.shift, Pair.visible, h, shiftL]
    · simp only [Pair.shift, Pair.visible, h]
      exact visibleList_shift k ch
theorem visibleList_shift (k : Nat) : ∀ ps : List Pair, visibleList (shiftL k ps) = shiftL k (visibleList ps)
  | [] => by simp [shiftL, visibleList]
  | p :: ps => by
    simp only [shiftL, visibleList, shiftL_append, visible_shift k p, visibleList_shift k ps]
end

mutual
theorem shift_zero : ∀ p : Pair, p.shift 0 = p
  | .mk n m s e ch t => by simp [Pair.shift, shiftL_zero ch]
theorem shiftL_zero : ∀ ps : List Pair, shiftL 0 ps = ps
  | [] => rfl
  | p :: ps => by simp [shiftL, shift_zero p, shiftL_zero ps]
end

/-! ### SOI-free expressions and grammars -/

/-- the grammar does not use SOI: no rule body contains it -/
def SOIFree (g : Grammar) : Prop := ∀ r ∈ g.rules, soiFree r.body = true

theorem soiFreeG_iff (g : Grammar) : soiFreeG g = true ↔ SOIFree g := by
  simp [soiFreeG, SOIFree]

theorem soiFreeL_iff (es : List Expr) : soiFreeL es = true ↔ ∀ e ∈ es, soiFree e = true := by
  induction es with
  | nil => simp [soiFreeL]
  | cons e es ih => simp [soiFreeL, ih]

theorem lookup_mem {g : Grammar} {n : String} {r : Rule} (h : g.lookup n = some r) : r ∈ g.rules :=
  List.mem_of_find?_eq_some h

theorem fusedSkip_mem {g : Grammar} {r : Rule} (h : g.fusedSkip = some r) : r ∈ g.rules := by
  unfold Grammar.fusedSkip at h
  cases hl : g.lookup "SKIP" with
  | none => rw [hl] at h; cases h
  | some q =>
    rw [hl] at h
    simp only [] at h
    split at h
    · cases h; exact lookup_mem hl
    · cases h

/-! ### the state relation -/

/-- furthest-failure positions: both the sentinel, or both real and `k` apart -/
def FposRel (k : Nat) (f f' : Int) : Prop := (f = -1 ∧ f' = -1) ∨ (0 ≤ f' ∧ f = f' + k)

structure ShiftRel (k : Nat) (c c' : PState) : Prop where
  pos : c.pos = c'.pos + k
  ph : c.posHist = c'.posHist.map (· + k)
  fp : FposRel k c.fpos c'.fpos
  us : c.ustack = c'.ustack
  rs : c.rstack = c'.rstack
  ad : c.adepth = c'.adepth
  tg : c.tagStack = c'.tagStack ∧ c.tagHist = c'.tagHist
  nd : c.negDepth = c'.negDepth
  sp : c.suppress = c'.suppress
  fe : c.fexp = c'.fexp
  fu : c.funexp = c'.funexp
  fs : c.fstack = c'.fstack

namespace ShiftRel
variable {k : Nat} {c c' : PState}

theorem setPos (s : ShiftRel k c c') {q q' : Nat} (h : q = q' + k) :
    ShiftRel k { c with pos := q } { c' with pos := q' } :=
  ⟨h, s.ph, s.fp, s.us, s.rs, s.ad, s.tg, s.nd, s.sp, s.fe, s.fu, s.fs⟩

theorem setUstack (s : ShiftRel k c c') (u : DStack Str) :
    ShiftRel k { c with ustack := u } { c' with ustack := u } :=
  ⟨s.pos, s.ph, s.fp, rfl, s.rs, s.ad, s.tg, s.nd, s.sp, s.fe, s.fu, s.fs⟩

theorem setRstack (s : ShiftRel k c c') (u : DStack String) :
    ShiftRel k { c with rstack := u } { c' with rstack := u } :=
  ⟨s.pos, s.ph, s.fp, s.us, rfl, s.ad, s.tg, s.nd, s.sp, s.fe, s.fu, s.fs⟩

theorem setAdepth (s : ShiftRel k c c') (a : SnapInt) :
    ShiftRel k { c with adepth := a } { c' with adepth := a } :=
  ⟨s.pos, s.ph, s.fp, s.us, s.rs, rfl, s.tg, s.nd, s.sp, s.fe, s.fu, s.fs⟩

theorem setTag (s : ShiftRel k c c') (t : List String) :
    ShiftRel k { c with tagStack := t } { c' with tagStack := t } :=
  ⟨s.pos, s.ph, s.fp, s.us, s.rs, s.ad, ⟨rfl, s.tg.2⟩, s.nd, s.sp, s.fe, s.fu, s.fs⟩

theorem setNeg (s : ShiftRel k c c') (n : Nat) :
    ShiftRel k { c with negDepth := n } { c' with negDepth := n } :=
  ⟨s.pos, s.ph, s.fp, s.us, s.rs, s.ad, s.tg, rfl, s.sp, s.fe, s.fu, s.fs⟩

theorem setSuppress (s : ShiftRel k c c') (b : Bool) :
    ShiftRel k { c with suppress := b } { c' with suppress := b } :=
  ⟨s.pos, s.ph, s.fp, s.us, s.rs, s.ad, s.tg, s.nd, rfl, s.fe, s.fu, s.fs⟩

theorem checkpoint (s : ShiftRel k c c') : ShiftRel k c.checkpoint c'.checkpoint :=
  ⟨s.pos, by simp [PState.checkpoint, s.pos, s.ph], s.fp, by simp [PState.checkpoint, s.us],
   by simp [PState.checkpoint, s.rs], by simp [PState.checkpoint, s.ad],
   ⟨s.tg.1, by simp [PState.checkpoint, s.tg.1, s.tg.2]⟩, s.nd, s.sp, s.fe, s.fu, s.fs⟩

theorem ok (s : ShiftRel k c c') : ShiftRel k c.ok c'.ok :=
  ⟨s.pos, by simp [PState.ok, s.ph], s.fp, by simp [PState.ok, s.us],
   by simp [PState.ok, s.rs], by simp [PState.ok, s.ad], ⟨s.tg.1, by simp [PState.ok, s.tg.2]⟩,
   s.nd, s.sp, s.fe, s.fu, s.fs⟩

theorem restore (s : ShiftRel k c c') : ShiftRel k c.restore c'.restore := by
  refine ⟨?_, by simp [PState.restore, s.ph], s.fp, by simp [PState.restore, s.us],
   by simp [PState.restore, s.rs], by simp [PState.restore, s.ad],
   ⟨by simp [PState.restore, s.tg.1, s.tg.2], by simp [PState.restore, s.tg.2]⟩,
   s.nd, s.sp, s.fe, s.fu, s.fs⟩
  simp only [PState.restore, s.ph, s.pos]
  cases c'.posHist with
  | nil => rfl
  | cons x xs => rfl

/-- the relation determines the left state -/
theorem left_unique {c₁ c₂ c' : PState} (h₁ : ShiftRel k c₁ c') (h₂ : ShiftRel k c₂ c') : c₁ = c₂ := by
  have hf : c₁.fpos = c₂.fpos := by
    rcases h₁.fp with ⟨a, b⟩ | ⟨a, b⟩ <;> rcases h₂.fp with ⟨a', b'⟩ | ⟨a', b'⟩ <;> omega
  have e1 := h₁.pos; have e2 := h₁.ph; have e3 := h₁.us; have e4 := h₁.rs; have e5 := h₁.ad
  have e6 := h₁.tg.1; have e6' := h₁.tg.2; have e7 := h₁.nd; have e8 := h₁.sp; have e9 := h₁.fe; have e10 := h₁.fu
  have e11 := h₁.fs
  have d1 := h₂.pos; have d2 := h₂.ph; have d3 := h₂.us; have d4 := h₂.rs; have d5 := h₂.ad
  have d6 := h₂.tg.1; have d6' := h₂.tg.2; have d7 := h₂.nd; have d8 := h₂.sp; have d9 := h₂.fe; have d10 := h₂.fu
  have d11 := h₂.fs
  cases c₁; cases c₂
  simp only at *
  simp only [PState.mk.injEq]
  exact ⟨by omega, by rw [e3, d3], by rw [e4, d4], by rw [e5, d5], by rw [e2, d2], by rw [e6, d6],
    by rw [e6', d6'], by omega, by rw [e8, d8], hf, by rw [e9, d9], by rw [e10, d10], by rw [e11, d11]⟩

end ShiftRel

theorem shiftRel_init (k j : Nat) : ShiftRel k (PState.init (j + k)) (PState.init j) :=
  ⟨rfl, rfl, Or.inl ⟨rfl, rfl⟩, rfl, rfl, rfl, ⟨rfl, rfl⟩, rfl, rfl, rfl, rfl, rfl⟩

/-! ### `fail()` -/

theorem failRecord_shift {k : Nat} {c c' : PState} (s : ShiftRel k c c') (name : String) :
    ShiftRel k (c.failRecord name c.pos) (c'.failRecord name c'.pos) := by
  unfold PState.failRecord
  rw [s.nd, s.rs, s.fe, s.fu]
  have hp := s.pos
  rcases s.fp with ⟨a, b⟩ | ⟨a, b⟩
  · have h1 : ((c.pos : Nat) : Int) > c.fpos := by omega
    have h2 : ((c'.pos : Nat) : Int) > c'.fpos := by omega
    simp only [h1, h2, ↓reduceIte]
    exact ⟨s.pos, s.ph, Or.inr ⟨by simp, by simp [hp]⟩, s.us, rfl, s.ad, s.tg, rfl, s.sp, rfl, rfl, rfl⟩
  · by_cases h2 : ((c'.pos : Nat) : Int) > c'.fpos
    · have h1 : ((c.pos : Nat) : Int) > c.fpos := by omega
      simp only [h1, h2, ↓reduceIte]
      exact ⟨s.pos, s.ph, Or.inr ⟨by simp, by simp [hp]⟩, s.us, rfl, s.ad, s.tg, rfl, s.sp, rfl, rfl, rfl⟩
    · have h1 : ¬ ((c.pos : Nat) : Int) > c.fpos := by omega
      simp only [h1, h2, ↓reduceIte]
      by_cases h4 : ((c'.pos : Nat) : Int) = c'.fpos
      · have h3 : ((c.pos : Nat) : Int) = c.fpos := by omega
        simp only [h3, h4, ↓reduceIte]
        by_cases hn : (c'.negDepth % 2 == 1) = true
        · simp only [hn, ↓reduceIte]
          exact ⟨s.pos, s.ph, s.fp, s.us, rfl, s.ad, s.tg, rfl, s.sp, rfl, rfl, s.fs⟩
        · simp only [hn, Bool.false_eq_true, ↓reduceIte]
          exact ⟨s.pos, s.ph, s.fp, s.us, rfl, s.ad, s.tg, rfl, s.sp, rfl, rfl, s.fs⟩
      · have h3 : ¬ ((c.pos : Nat) : Int) = c.fpos := by omega
        simp only [h3, h4, ↓reduceIte]
        exact s

theorem fail_shift {k : Nat} {c c' : PState} (s : ShiftRel k c c') (rn : Option String) (force : Bool) :
    (c.fail rn force = none ∧ c'.fail rn force = none) ∨
    ∃ d d', c.fail rn force = some d ∧ c'.fail rn force = some d' ∧ ShiftRel k d d' := by
  unfold PState.fail
  rw [s.nd, s.sp]
  by_cases hs : ((c'.negDepth > 0 && !force) || c'.suppress) = true
  · simp only [hs, ↓reduceIte]
    exact Or.inr ⟨c, c', rfl, rfl, s⟩
  · simp only [hs, Bool.false_eq_true, ↓reduceIte]
    have hn : c.failName rn = c'.failName rn := by unfold PState.failName; rw [s.rs]
    rw [hn]
    cases c'.failName rn with
    | none => exact Or.inl ⟨rfl, rfl⟩
    | some nm => exact Or.inr ⟨_, _, rfl, rfl, failRecord_shift s nm⟩

/-! ### L1: the result relation -/

def ResRel (k : Nat) : R1 → R1 → Prop
  | .oof, r' => r' = .oof
  | .exc e, r' => r' = .exc e
  | .done m c ps, r' => ∃ c' ps', r' = .done m c' ps' ∧ ShiftRel k c c' ∧ ps = shiftL k ps'

/-- `r` on the full input and `r'` on the suffix agree up to the shift on SOI-free expressions -/
def ShiftGood (k : Nat) (r r' : Sem1) : Prop :=
  ∀ e c c', soiFree e = true → ShiftRel k c c' → ResRel k (r e c) (r' e c')

section l1
variable {k : Nat} {inp inp' : Input} (g : Grammar)

theorem failT_shift {c c' : PState} (s : ShiftRel k c c') : ResRel k (L1.failT c) (L1.failT c') := by
  unfold L1.failT
  rcases fail_shift s none false with ⟨h1, h2⟩ | ⟨d, d', h1, h2, sd⟩
  · rw [h1, h2]; rfl
  · rw [h1, h2]; exact ⟨d', [], rfl, sd, rfl⟩

theorem ruleEnter_shift {c c' : PState} (name : String) (mod : Nat) (s : ShiftRel k c c') :
    ShiftRel k (L1.ruleEnter name mod { c with rstack := c.rstack.push name })
      (L1.ruleEnter name mod { c' with rstack := c'.rstack.push name }) := by
  have s1 : ShiftRel k { c with rstack := c.rstack.push name } { c' with rstack := c'.rstack.push name } := by
    rw [s.rs]; exact s.setRstack _
  unfold L1.ruleEnter
  by_cases hA : (hasBit mod ATOMIC || hasBit mod COMPOUND || L1.isTriviaName name) = true
  · simp only [hA, ↓reduceIte]
    have := s1.setAdepth ((c'.adepth.snapshot).add 1)
    simpa [s.ad] using this
  · by_cases hN : hasBit mod NONATOMIC = true
    · simp only [hA, hN, Bool.false_eq_true, ↓reduceIte]
      have := s1.setAdepth ((c'.adepth.snapshot).zero)
      simpa [s.ad] using this
    · simp only [hA, hN, Bool.false_eq_true, ↓reduceIte]
      exact s1

theorem ruleExit_shift {c2 c2' : PState} (name : String) (mod : Nat) {start start' : Nat}
    (matched : Bool) {children children' : List Pair} (s : ShiftRel k c2 c2')
    (hst : start = start' + k) (hch : children = shiftL k children') :
    ResRel k (L1.ruleExit name mod start matched c2 children)
      (L1.ruleExit name mod start' matched c2' children') := by
  unfold L1.ruleExit
  generalize hc3 : (if L1.ruleScoped name mod then ({ c2 with adepth := c2.adepth.restore } : PState) else c2) = c3
  generalize hc3' : (if L1.ruleScoped name mod then ({ c2' with adepth := c2'.adepth.restore } : PState) else c2') = c3'
  have s3 : ShiftRel k c3 c3' := by
    by_cases hsc : L1.ruleScoped name mod = true
    · simp only [hsc, ↓reduceIte] at hc3 hc3'
      subst hc3 hc3'
      rw [s.ad]; exact s.setAdepth _
    · simp only [hsc, Bool.false_eq_true, ↓reduceIte] at hc3 hc3'
      subst hc3 hc3'
      exact s
  simp only []
  rw [s3.rs]
  cases c3'.rstack.pop with
  | none => rfl
  | some q =>
    obtain ⟨x, rs⟩ := q
    simp only []
    have s4 : ShiftRel k ({ c3 with rstack := rs } : PState) ({ c3' with rstack := rs } : PState) :=
      s3.setRstack rs
    cases matched with
    | false =>
      simp only [Bool.not_false, ↓reduceIte]
      exact ⟨_, [], rfl, s4, rfl⟩
    | true =>
      simp only [Bool.not_true, Bool.false_eq_true, ↓reduceIte]
      by_cases hS : hasBit mod SILENT = true
      · simp only [hS, ↓reduceIte]
        exact ⟨_, children', rfl, s4, hch⟩
      · simp only [hS, Bool.false_eq_true, ↓reduceIte]
        have htg : c3.tagStack = c3'.tagStack := s3.tg.1
        rw [htg]
        have hvis : (if hasBit mod ATOMIC = true then visibleList children else children)
            = shiftL k (if hasBit mod ATOMIC = true then visibleList children' else children') := by
          by_cases hat : hasBit mod ATOMIC = true
          · simp only [hat, ↓reduceIte, hch, visibleList_shift]
          · simp only [hat, Bool.false_eq_true, ↓reduceIte, hch]
        cases c3'.tagStack with
        | nil =>
          simp only []
          refine ⟨_, _, rfl, s4.setTag [], ?_⟩
          simp only [shiftL, Pair.shift, hvis, hst, s3.pos]
        | cons t ts =>
          simp only []
          refine ⟨_, _, rfl, s4.setTag ts, ?_⟩
          simp only [shiftL, Pair.shift, hvis, hst, s3.pos]

theorem ruleParse_shift {r r' : Sem1} (h : ShiftGood k r r') (name : String) (mod : Nat)
    (body : Expr) (hb : soiFree body = true) {c c' : PState} (s : ShiftRel k c c') :
    ResRel k (L1.ruleParse r name mod body c) (L1.ruleParse r' name mod body c') := by
  unfold L1.ruleParse
  have he := h body _ _ hb (ruleEnter_shift name mod s)
  generalize L1.ruleEnter name mod { c with rstack := c.rstack.push name } = en at he
  generalize L1.ruleEnter name mod { c' with rstack := c'.rstack.push name } = en' at he
  revert he
  cases r body en with
  | oof => intro he; simp only [ResRel] at he; simp only [he]; rfl
  | exc e => intro he; simp only [ResRel] at he; simp only [he]; rfl
  | done m c2 ch =>
    intro he
    obtain ⟨c2', ch', e', s2, hch⟩ := he
    simp only [e']
    exact ruleExit_shift name mod m s2 s.pos hch

theorem withTag_shift (tag : Option String) {c c' : PState} (s : ShiftRel k c c')
    (body body' : PState → R1)
    (hb : ∀ d d', ShiftRel k d d' → ResRel k (body d) (body' d')) :
    ResRel k (L1.withTag tag c body) (L1.withTag tag c' body') := by
  unfold L1.withTag
  cases tag with
  | none => exact hb c c' s
  | some t =>
    simp only []
    have s' : ShiftRel k { c with tagStack := t :: c.tagStack } { c' with tagStack := t :: c'.tagStack } := by
      rw [s.tg.1]; exact s.setTag _
    have h := hb _ _ s'
    revert h
    cases body { c with tagStack := t :: c.tagStack } with
    | oof => intro h; simp only [ResRel] at h; simp only [h]; rfl
    | exc e => intro h; simp only [ResRel] at h; simp only [h]; rfl
    | done m d ps =>
      intro h
      obtain ⟨d', ps', e', sd, hps⟩ := h
      simp only [e']
      refine ⟨_, ps', rfl, ?_, hps⟩
      rw [sd.tg.1]; exact sd.setTag _

theorem callRule_shift {r r' : Sem1} (hg : SOIFree g) (h : ShiftGood k r r') (name : String)
    {c c' : PState} (s : ShiftRel k c c') :
    ResRel k (L1.callRule g r name c) (L1.callRule g r' name c') := by
  unfold L1.callRule
  cases hl : g.lookup name with
  | none => rfl
  | some rl => exact ruleParse_shift h rl.name rl.mod rl.body (hg rl (lookup_mem hl)) s

/-! #### implicit trivia -/

def TryShift (k : Nat) : L1.TryR → L1.TryR → Prop
  | .matched c ps, t' => ∃ c' ps', t' = .matched c' ps' ∧ ShiftRel k c c' ∧ ps = shiftL k ps'
  | .no c, t' => ∃ c', t' = .no c' ∧ ShiftRel k c c'
  | .stop r, t' => ∃ r', t' = .stop r' ∧ ResRel k r r'

theorem tryTrivia_shift {r r' : Sem1} (h : ShiftGood k r r') (rl : Option Rule)
    (hrl : ∀ x, rl = some x → soiFree x.body = true) {c c' : PState} (s : ShiftRel k c c') :
    TryShift k (L1.tryTrivia r rl c) (L1.tryTrivia r' rl c') := by
  unfold L1.tryTrivia
  cases rl with
  | none => exact ⟨c', rfl, s⟩
  | some x =>
    simp only []
    have hb := ruleParse_shift h x.name x.mod x.body (hrl x rfl) s.checkpoint
    revert hb
    cases L1.ruleParse r x.name x.mod x.body c.checkpoint with
    | oof => intro hb; simp only [ResRel] at hb; simp only [hb]; exact ⟨_, rfl, rfl⟩
    | exc e => intro hb; simp only [ResRel] at hb; simp only [hb]; exact ⟨_, rfl, rfl⟩
    | done m d ps =>
      intro hb
      obtain ⟨d', ps', e', sd, hps⟩ := hb
      simp only [e']
      cases m with
      | true => exact ⟨_, ps', rfl, sd.ok, hps⟩
      | false => exact ⟨_, rfl, sd.restore⟩

theorem triviaLoop_shift {r r' : Sem1} (h : ShiftGood k r r') (ws cm : Option Rule)
    (hws : ∀ x, ws = some x → soiFree x.body = true) (hcm : ∀ x, cm = some x → soiFree x.body = true) :
    ∀ (n : Nat) (c c' : PState) (acc' : List Pair), ShiftRel k c c' →
      ResRel k (L1.triviaLoop r ws cm n c (shiftL k acc')) (L1.triviaLoop r' ws cm n c' acc') := by
  intro n
  induction n with
  | zero => intro c c' acc' _; rfl
  | succ n ih =>
    intro c c' acc' s
    simp only [L1.triviaLoop]
    have h1 := tryTrivia_shift h ws hws s
    revert h1
    cases L1.tryTrivia r ws c with
    | matched d ps =>
      intro h1
      obtain ⟨d', ps', e', sd, hps⟩ := h1
      simp only [e']
      have := ih d d' (acc' ++ ps') sd
      rw [shiftL_append, ← hps] at this
      exact this
    | stop x =>
      intro h1
      obtain ⟨x', e', hx⟩ := h1
      simp only [e']
      exact hx
    | no c1 =>
      intro h1
      obtain ⟨c1', e', s1⟩ := h1
      simp only [e']
      have h2 := tryTrivia_shift h cm hcm s1
      revert h2
      cases L1.tryTrivia r cm c1 with
      | matched d ps =>
        intro h2
        obtain ⟨d', ps', e2, sd, hps⟩ := h2
        simp only [e2]
        have := ih d d' (acc' ++ ps') sd
        rw [shiftL_append, ← hps] at this
        exact this
      | stop x =>
        intro h2
        obtain ⟨x', e2, hx⟩ := h2
        simp only [e2]
        exact hx
      | no c2 =>
        intro h2
        obtain ⟨c2', e2, s2⟩ := h2
        simp only [e2]
        exact ⟨c2', acc', rfl, s2, rfl⟩

theorem parseTrivia_shift {r r' : Sem1} (hg : SOIFree g) (h : ShiftGood k r r') (n : Nat)
    {c c' : PState} (s : ShiftRel k c c') :
    ResRel k (L1.parseTrivia g r n c) (L1.parseTrivia g r' n c') := by
  unfold L1.parseTrivia
  have hav : c.adepth.val = c'.adepth.val := by rw [s.ad]
  rw [hav]
  by_cases ha : c'.adepth.val > 0
  · simp only [ha, ↓reduceIte]; exact ⟨c', [], rfl, s, rfl⟩
  · simp only [ha, ↓reduceIte]
    cases hsk : g.fusedSkip with
    | some skip =>
      simp only []
      exact ruleParse_shift h skip.name skip.mod skip.body (hg skip (fusedSkip_mem hsk)) s
    | none =>
      simp only []
      by_cases hn : ((g.lookup "WHITESPACE").isNone && (g.lookup "COMMENT").isNone) = true
      · simp only [hn, ↓reduceIte]; exact ⟨c', [], rfl, s, rfl⟩
      · simp only [hn, Bool.false_eq_true, ↓reduceIte]
        have hl := triviaLoop_shift h (g.lookup "WHITESPACE") (g.lookup "COMMENT")
          (fun x hx => hg x (lookup_mem hx)) (fun x hx => hg x (lookup_mem hx)) n
          { c with suppress := true } { c' with suppress := true } [] (s.setSuppress true)
        simp only [shiftL] at hl
        revert hl
        cases L1.triviaLoop r (g.lookup "WHITESPACE") (g.lookup "COMMENT") n { c with suppress := true } [] with
        | oof => intro hl; simp only [ResRel] at hl; simp only [hl]; rfl
        | exc e => intro hl; simp only [ResRel] at hl; simp only [hl]; rfl
        | done m d ps =>
          intro hl
          obtain ⟨d', ps', e', sd, hps⟩ := hl
          simp only [e']
          exact ⟨_, ps', rfl, sd.setSuppress false, hps⟩

/-! #### Sequence, Choice, Repeat -/

theorem seqParse_shift {r r' : Sem1} (hg : SOIFree g) (h : ShiftGood k r r') (n : Nat) :
    ∀ (es : List Expr) (c c' : PState) (acc' : List Pair), (∀ e ∈ es, soiFree e = true) →
      ShiftRel k c c' →
      ResRel k (L1.seqParse g r n es c (shiftL k acc')) (L1.seqParse g r' n es c' acc') := by
  intro es
  induction es with
  | nil => intro c c' acc' _ s; exact ⟨c', acc', rfl, s, rfl⟩
  | cons e rest ih =>
    intro c c' acc' hes s
    simp only [L1.seqParse]
    have he := h e c c' (hes e (by simp)) s
    revert he
    cases r e c with
    | oof => intro he; simp only [ResRel] at he; simp only [he]; rfl
    | exc x => intro he; simp only [ResRel] at he; simp only [he]; rfl
    | done m c1 ps =>
      intro he
      obtain ⟨c1', ps', e', s1, hps⟩ := he
      simp only [e']
      cases m with
      | false => exact ⟨c1', [], rfl, s1, rfl⟩
      | true =>
        simp only []
        by_cases hr : rest.isEmpty = true
        · simp only [hr, ↓reduceIte]
          exact ⟨c1', _, rfl, s1, by rw [shiftL_append, hps]⟩
        · simp only [hr, Bool.false_eq_true, ↓reduceIte]
          have ht := parseTrivia_shift g hg h n s1
          revert ht
          cases L1.parseTrivia g r n c1 with
          | oof => intro ht; simp only [ResRel] at ht; simp only [ht]; rfl
          | exc x => intro ht; simp only [ResRel] at ht; simp only [ht]; rfl
          | done m2 c2 tps =>
            intro ht
            obtain ⟨c2', tps', e2, s2, htps⟩ := ht
            simp only [e2]
            have := ih c2 c2' (acc' ++ ps' ++ tps') (fun x hx => hes x (by simp [hx])) s2
            rw [shiftL_append, shiftL_append, ← hps, ← htps] at this
            exact this

theorem choiceParse_shift {r r' : Sem1} (h : ShiftGood k r r') :
    ∀ (es : List Expr) (c c' : PState), (∀ e ∈ es, soiFree e = true) → ShiftRel k c c' →
      ResRel k (L1.choiceParse r es c) (L1.choiceParse r' es c') := by
  intro es
  induction es with
  | nil => intro c c' _ s; exact ⟨c', [], rfl, s, rfl⟩
  | cons e rest ih =>
    intro c c' hes s
    simp only [L1.choiceParse]
    have he := h e _ _ (hes e (by simp)) s.checkpoint
    revert he
    cases r e c.checkpoint with
    | oof => intro he; simp only [ResRel] at he; simp only [he]; rfl
    | exc x => intro he; simp only [ResRel] at he; simp only [he]; rfl
    | done m c1 ps =>
      intro he
      obtain ⟨c1', ps', e', s1, hps⟩ := he
      simp only [e']
      cases m with
      | true => exact ⟨_, ps', rfl, s1.ok, hps⟩
      | false => exact ih _ _ (fun x hx => hes x (by simp [hx])) s1.restore

theorem repLoop_shift {r r' : Sem1} (hg : SOIFree g) (h : ShiftGood k r r') (e : Expr)
    (he : soiFree e = true) (kk : Nat) :
    ∀ (n : Nat) (first : Bool) (c c' : PState) (acc' : List Pair), ShiftRel k c c' →
      ResRel k (L1.repLoop g r e n kk first c (shiftL k acc')) (L1.repLoop g r' e n kk first c' acc') := by
  intro n
  induction n with
  | zero => intro first c c' acc' _; rfl
  | succ n ih =>
    intro first c c' acc' s
    simp only [L1.repLoop]
    have hT : ResRel k
        (if first = true then R1.done true c.checkpoint [] else L1.parseTrivia g r kk c.checkpoint)
        (if first = true then R1.done true c'.checkpoint [] else L1.parseTrivia g r' kk c'.checkpoint) := by
      by_cases hf : first = true
      · simp only [hf, ↓reduceIte]; exact ⟨_, [], rfl, s.checkpoint, rfl⟩
      · simp only [hf, Bool.false_eq_true, ↓reduceIte]
        exact parseTrivia_shift g hg h kk s.checkpoint
    revert hT
    cases (if first = true then R1.done true c.checkpoint [] else L1.parseTrivia g r kk c.checkpoint) with
    | oof => intro hT; simp only [ResRel] at hT; simp only [hT]; rfl
    | exc x => intro hT; simp only [ResRel] at hT; simp only [hT]; rfl
    | done m c1 tps =>
      intro hT
      obtain ⟨c1', tps', e1, s1, htps⟩ := hT
      simp only [e1]
      have hb := h e c1 c1' he s1
      revert hb
      cases r e c1 with
      | oof => intro hb; simp only [ResRel] at hb; simp only [hb]; rfl
      | exc x => intro hb; simp only [ResRel] at hb; simp only [hb]; rfl
      | done m2 c2 ps =>
        intro hb
        obtain ⟨c2', ps', e2, s2, hps⟩ := hb
        simp only [e2]
        cases m2 with
        | true =>
          have := ih false c2.ok c2'.ok (acc' ++ tps' ++ ps') s2.ok
          rw [shiftL_append, shiftL_append, ← hps, ← htps] at this
          exact this
        | false => exact ⟨_, acc', rfl, s2.restore, rfl⟩

/-! #### POP_ALL -/

theorem popAllLoop_shift (hS : Shifted k inp inp') :
    ∀ (n : Nat) (c c' : PState) (p' : Nat), ShiftRel k c c' →
      ResRel k (L1.popAllLoop inp n c (p' + k)) (L1.popAllLoop inp' n c' p') := by
  intro n
  induction n with
  | zero => intro c c' p' _; rfl
  | succ n ih =>
    intro c c' p' s
    simp only [L1.popAllLoop]
    rw [s.us]
    cases c'.ustack.pop with
    | none =>
      simp only []
      exact ⟨_, [], rfl, s.ok.setPos rfl, rfl⟩
    | some q =>
      obtain ⟨lit, us⟩ := q
      simp only [startsWithAt_shift hS]
      by_cases hm : startsWithAt inp' lit p' = true
      · simp only [hm, ↓reduceIte]
        rw [show p' + k + lit.length = (p' + lit.length) + k by omega]
        exact ih _ _ _ (s.setUstack us)
      · simp only [hm, Bool.false_eq_true, ↓reduceIte]
        exact failT_shift (s.setUstack us).restore

/-! #### one node -/

theorem step_shift {r r' : Sem1} (hS : Shifted k inp inp') (hg : SOIFree g) (n : Nat)
    (h : ShiftGood k r r') : ShiftGood k (L1.step g inp n r) (L1.step g inp' n r') := by
  intro e c c' hf s
  have hpos := s.pos
  have eSW : ∀ x, startsWithAt inp x c.pos = startsWithAt inp' x c'.pos := fun x => by
    rw [hpos, startsWithAt_shift hS]
  have eCI : ∀ x, startsWithAtCI inp x c.pos = startsWithAtCI inp' x c'.pos := fun x => by
    rw [hpos, startsWithAtCI_shift hS]
  have eGet : inp[c.pos]? = inp'[c'.pos]? := by rw [hpos, hS.get]
  have eMA : ∀ ls, L1.matchAll inp ls c.pos = (L1.matchAll inp' ls c'.pos).map (· + k) := fun ls => by
    rw [hpos, matchAll_shift hS]
  have eItems : c.ustack.items = c'.ustack.items := by rw [s.us]
  have ePeek : c.ustack.peek = c'.ustack.peek := by rw [s.us]
  have ePop : c.ustack.pop = c'.ustack.pop := by rw [s.us]
  cases e with
  | str x =>
    simp only [L1.step]
    rw [eSW]
    by_cases hm : startsWithAt inp' x c'.pos = true
    · simp only [hm, ↓reduceIte]
      exact ⟨_, [], rfl, s.setPos (by omega), rfl⟩
    · simp only [hm, Bool.false_eq_true, ↓reduceIte]; exact failT_shift s
  | ci x =>
    simp only [L1.step]
    rw [eCI]
    by_cases hm : startsWithAtCI inp' x c'.pos = true
    · simp only [hm, ↓reduceIte]
      exact ⟨_, [], rfl, s.setPos (by omega), rfl⟩
    · simp only [hm, Bool.false_eq_true, ↓reduceIte]; exact failT_shift s
  | range a b =>
    simp only [L1.step]
    rw [eGet]
    cases inp'[c'.pos]? with
    | none => exact failT_shift s
    | some x =>
      simp only []
      by_cases hm : L1.inRange a b x = true
      · simp only [hm, ↓reduceIte]
        exact ⟨_, [], rfl, s.setPos (by omega), rfl⟩
      · simp only [hm, Bool.false_eq_true, ↓reduceIte]; exact failT_shift s
  | ident name tag =>
    simp only [L1.step]
    exact withTag_shift tag s _ _ (fun d d' sd => callRule_shift g hg h name sd)
  | rule name mod sm body =>
    simp only [L1.step]
    simp only [soiFree] at hf
    exact ruleParse_shift h name mod body hf s
  | seq es =>
    simp only [soiFree] at hf
    exact seqParse_shift g hg h n es c c' [] ((soiFreeL_iff es).1 hf) s
  | choice es =>
    simp only [soiFree] at hf
    exact choiceParse_shift h es c c' ((soiFreeL_iff es).1 hf) s
  | opt e =>
    simp only [L1.step]
    simp only [soiFree] at hf
    have he := h e _ _ hf s.checkpoint
    revert he
    cases r e c.checkpoint with
    | oof => intro he; simp only [ResRel] at he; simp only [he]; rfl
    | exc x => intro he; simp only [ResRel] at he; simp only [he]; rfl
    | done m c1 ps =>
      intro he
      obtain ⟨c1', ps', e', s1, hps⟩ := he
      simp only [e']
      cases m with
      | true => exact ⟨_, ps', rfl, s1.ok, hps⟩
      | false => exact ⟨_, [], rfl, s1.restore, rfl⟩
  | rep e =>
    simp only [soiFree] at hf
    exact repLoop_shift g hg h e hf n n true c c' [] s
  | rep1 e =>
    simp only [soiFree] at hf
    exact seqParse_shift g hg h n [e, .rep e] c c' [] (by simp [soiFree, hf]) s
  | repExact e m =>
    simp only [soiFree] at hf
    exact seqParse_shift g hg h n (List.replicate m e) c c' []
      (by intro x hx; rw [(List.mem_replicate.1 hx).2]; exact hf) s
  | repMin e m =>
    simp only [soiFree] at hf
    refine seqParse_shift g hg h n (List.replicate m e ++ [.rep e]) c c' [] ?_ s
    intro x hx
    rcases List.mem_append.1 hx with hx | hx
    · rw [(List.mem_replicate.1 hx).2]; exact hf
    · simp only [List.mem_singleton] at hx; rw [hx]; simpa [soiFree] using hf
  | repMax e m =>
    simp only [soiFree] at hf
    refine seqParse_shift g hg h n (List.replicate m (.opt e)) c c' [] ?_ s
    intro x hx; rw [(List.mem_replicate.1 hx).2]; simpa [soiFree] using hf
  | repMinMax e m m2 =>
    simp only [soiFree] at hf
    refine seqParse_shift g hg h n (List.replicate m e ++ List.replicate (m2 - m) (.opt e)) c c' [] ?_ s
    intro x hx
    rcases List.mem_append.1 hx with hx | hx
    · rw [(List.mem_replicate.1 hx).2]; exact hf
    · rw [(List.mem_replicate.1 hx).2]; simpa [soiFree] using hf
  | andP e =>
    simp only [L1.step]
    simp only [soiFree] at hf
    have he := h e _ _ hf s.checkpoint
    revert he
    cases r e c.checkpoint with
    | oof => intro he; simp only [ResRel] at he; simp only [he]; rfl
    | exc x => intro he; simp only [ResRel] at he; simp only [he]; rfl
    | done m c1 ps =>
      intro he
      obtain ⟨c1', ps', e', s1, hps⟩ := he
      simp only [e']
      exact ⟨_, [], rfl, s1.restore, rfl⟩
  | notP e =>
    simp only [L1.step]
    simp only [soiFree] at hf
    have sc : ShiftRel k { c.checkpoint with negDepth := c.checkpoint.negDepth + 1 }
        { c'.checkpoint with negDepth := c'.checkpoint.negDepth + 1 } := by
      have hn : c.checkpoint.negDepth = c'.checkpoint.negDepth := s.checkpoint.nd
      rw [hn]; exact s.checkpoint.setNeg _
    have he := h e _ _ hf sc
    revert he
    cases r e { c.checkpoint with negDepth := c.checkpoint.negDepth + 1 } with
    | oof => intro he; simp only [ResRel] at he; simp only [he]; rfl
    | exc x => intro he; simp only [ResRel] at he; simp only [he]; rfl
    | done m c1 ps =>
      intro he
      obtain ⟨c1', ps', e', s1, hps⟩ := he
      simp only [e']
      have sr := s1.restore
      cases m with
      | false =>
        simp only [Bool.false_eq_true, ↓reduceIte]
        refine ⟨_, [], rfl, ?_, rfl⟩
        have hn : c1.restore.negDepth = c1'.restore.negDepth := sr.nd
        rw [hn]; exact sr.setNeg _
      | true =>
        simp only [↓reduceIte]
        rcases fail_shift sr (L1.failedName e) true with ⟨h1, h2⟩ | ⟨d, d', h1, h2, sd⟩
        · simp only [h1, h2]; rfl
        · simp only [h1, h2]
          refine ⟨_, [], rfl, ?_, rfl⟩
          rw [sd.nd]; exact sd.setNeg _
  | group e tag =>
    simp only [L1.step]
    simp only [soiFree] at hf
    exact withTag_shift tag s _ _ (fun d d' sd => h e d d' hf sd)
  | push e =>
    simp only [L1.step]
    simp only [soiFree] at hf
    have he := h e c c' hf s
    revert he
    cases r e c with
    | oof => intro he; simp only [ResRel] at he; simp only [he]; rfl
    | exc x => intro he; simp only [ResRel] at he; simp only [he]; rfl
    | done m c1 ps =>
      intro he
      obtain ⟨c1', ps', e', s1, hps⟩ := he
      simp only [e']
      cases m with
      | false => exact ⟨_, [], rfl, s1, rfl⟩
      | true =>
        simp only []
        refine ⟨_, ps', rfl, ?_, hps⟩
        have e1 : slice inp c.pos c1.pos = slice inp' c'.pos c1'.pos := by
          rw [hpos, s1.pos, slice_shift hS]
        rw [e1, s1.us]
        exact s1.setUstack _
  | pushLit x =>
    simp only [L1.step]
    refine ⟨_, [], rfl, ?_, rfl⟩
    rw [s.us]; exact s.setUstack _
  | peekSlice a b =>
    simp only [L1.step]
    rw [eMA, eItems]
    cases L1.matchAll inp' (pySlice c'.ustack.items.reverse a b) c'.pos with
    | none => exact failT_shift s
    | some q => exact ⟨_, [], rfl, s.setPos rfl, rfl⟩
  | peek =>
    simp only [L1.step]
    rw [ePeek]
    cases c'.ustack.peek with
    | none => exact ⟨c', [], rfl, s, rfl⟩
    | some v =>
      simp only []
      rw [eSW]
      by_cases hm : startsWithAt inp' v c'.pos = true
      · simp only [hm, ↓reduceIte]
        exact ⟨_, [], rfl, s.setPos (by omega), rfl⟩
      · simp only [hm, Bool.false_eq_true, ↓reduceIte]; exact failT_shift s
  | peekAll =>
    simp only [L1.step]
    rw [eMA, eItems]
    cases L1.matchAll inp' c'.ustack.items c'.pos with
    | none => exact failT_shift s
    | some q => exact ⟨_, [], rfl, s.setPos rfl, rfl⟩
  | pop =>
    simp only [L1.step]
    rw [ePeek]
    cases c'.ustack.peek with
    | none => exact ⟨c', [], rfl, s, rfl⟩
    | some v =>
      simp only []
      rw [eSW]
      by_cases hm : startsWithAt inp' v c'.pos = true
      · simp only [hm, ↓reduceIte]
        rw [ePop]
        cases c'.ustack.pop with
        | none => rfl
        | some q =>
          obtain ⟨x, us⟩ := q
          exact ⟨_, [], rfl, (s.setUstack us).setPos (by omega), rfl⟩
      · simp only [hm, Bool.false_eq_true, ↓reduceIte]; exact failT_shift s
  | popAll =>
    simp only [L1.step]
    have := popAllLoop_shift hS (c'.ustack.items.length + 1) _ _ c'.pos s.checkpoint
    rw [← hpos] at this
    rw [eItems]
    exact this
  | drop =>
    simp only [L1.step]
    rw [ePop]
    cases c'.ustack.pop with
    | none => exact failT_shift s
    | some q =>
      obtain ⟨x, us⟩ := q
      exact ⟨_, [], rfl, s.setUstack us, rfl⟩
  | anyB =>
    simp only [L1.step]
    have hsz := hS.size
    by_cases hm : c'.pos < inp'.size
    · have hm' : c.pos < inp.size := by omega
      simp only [hm, hm', ↓reduceIte]
      exact ⟨_, [], rfl, s.setPos (by omega), rfl⟩
    · have hm' : ¬ c.pos < inp.size := by omega
      simp only [hm, hm', ↓reduceIte]
      exact ⟨c', [], rfl, s, rfl⟩
  | soiB => simp [soiFree] at hf
  | eoiB =>
    simp only [L1.step]
    have hsz := hS.size
    have : (c.pos == inp.size) = (c'.pos == inp'.size) := by
      rw [Bool.eq_iff_iff]; simp only [beq_iff_eq]; omega
    rw [this]
    exact ⟨c', [], rfl, s, rfl⟩
  | uprop nm =>
    simp only [L1.step]
    rw [eGet]
    cases inp'[c'.pos]? with
    | none => exact ⟨c', [], rfl, s, rfl⟩
    | some x =>
      simp only []
      by_cases hm : g.uprop nm x = true
      · simp only [hm, ↓reduceIte]
        exact ⟨_, [], rfl, s.setPos (by omega), rfl⟩
      · simp only [hm, Bool.false_eq_true, ↓reduceIte]; exact ⟨c', [], rfl, s, rfl⟩
  | skipUntil subs =>
    simp only [L1.step]
    have e1 : L1.skipUntilPos inp subs c.pos = L1.skipUntilPos inp' subs c'.pos + k := by
      rw [hpos, skipUntilPos_shift hS]
    rw [e1]
    exact ⟨_, [], rfl, s.setPos rfl, rfl⟩
  | optChoice alts star =>
    simp only [L1.step]
    have e1 : L1.optMatch g inp alts star c.pos = (L1.optMatch g inp' alts star c'.pos).map (· + k) := by
      rw [hpos, optMatch_shift hS]
    rw [e1]
    cases L1.optMatch g inp' alts star c'.pos with
    | none => exact ⟨c', [], rfl, s, rfl⟩
    | some q => exact ⟨_, [], rfl, s.setPos rfl, rfl⟩

/-- **shift invariance of the interpreter model**, every expression, every fuel -/
theorem run_shift (hS : Shifted k inp inp') (hg : SOIFree g) :
    ∀ n, ShiftGood k (L1.run g inp n) (L1.run g inp' n) := by
  intro n
  induction n with
  | zero => intro e c c' _ _; rfl
  | succ n ih => exact step_shift g hS hg n ih

end l1

/-! ### LG: the same for the generated-code model (the caller's list is threaded) -/

def ResRelG (k : Nat) : RG → RG → Prop
  | .oof, r' => r' = .oof
  | .exc e, r' => r' = .exc e
  | .done m c ps, r' => ∃ c' ps', r' = .done m c' ps' ∧ ShiftRel k c c' ∧ ps = shiftL k ps'

def ShiftGoodG (k : Nat) (r r' : SemG) : Prop :=
  ∀ e c c' ps', soiFree e = true → ShiftRel k c c' → ResRelG k (r e c (shiftL k ps')) (r' e c' ps')

section lg
variable {k : Nat} {inp inp' : Input} (g : Grammar)

theorem failTG_shift {c c' : PState} (ps' : List Pair) (s : ShiftRel k c c') :
    ResRelG k (LG.failT c (shiftL k ps')) (LG.failT c' ps') := by
  unfold LG.failT
  rcases fail_shift s none false with ⟨h1, h2⟩ | ⟨d, d', h1, h2, sd⟩
  · rw [h1, h2]; rfl
  · rw [h1, h2]; exact ⟨d', ps', rfl, sd, rfl⟩

theorem ruleExitG_shift {c2 c2' : PState} (name : String) (mod : Nat) {start start' : Nat}
    (matched : Bool) {children children' : List Pair} (ps' : List Pair) (s : ShiftRel k c2 c2')
    (hst : start = start' + k) (hch : children = shiftL k children') :
    ResRelG k (LG.ruleExitG name mod start matched c2 children (shiftL k ps'))
      (LG.ruleExitG name mod start' matched c2' children' ps') := by
  unfold LG.ruleExitG
  generalize hc3 : (if L1.ruleScoped name mod then ({ c2 with adepth := c2.adepth.restore } : PState) else c2) = c3
  generalize hc3' : (if L1.ruleScoped name mod then ({ c2' with adepth := c2'.adepth.restore } : PState) else c2') = c3'
  have s3 : ShiftRel k c3 c3' := by
    by_cases hsc : L1.ruleScoped name mod = true
    · simp only [hsc, ↓reduceIte] at hc3 hc3'
      subst hc3 hc3'
      rw [s.ad]; exact s.setAdepth _
    · simp only [hsc, Bool.false_eq_true, ↓reduceIte] at hc3 hc3'
      subst hc3 hc3'
      exact s
  simp only []
  rw [s3.rs]
  cases c3'.rstack.pop with
  | none => rfl
  | some q =>
    obtain ⟨x, rs⟩ := q
    simp only []
    have s4 : ShiftRel k ({ c3 with rstack := rs } : PState) ({ c3' with rstack := rs } : PState) :=
      s3.setRstack rs
    cases matched with
    | false =>
      simp only [Bool.not_false, ↓reduceIte]
      exact ⟨_, ps', rfl, s4, rfl⟩
    | true =>
      simp only [Bool.not_true, Bool.false_eq_true, ↓reduceIte]
      by_cases hS : hasBit mod SILENT = true
      · simp only [hS, ↓reduceIte]
        exact ⟨_, _, rfl, s4, by rw [shiftL_append, hch]⟩
      · simp only [hS, Bool.false_eq_true, ↓reduceIte]
        have htg : c3.tagStack = c3'.tagStack := s3.tg.1
        rw [htg]
        have hvis : (if hasBit mod ATOMIC = true then visibleList children else children)
            = shiftL k (if hasBit mod ATOMIC = true then visibleList children' else children') := by
          by_cases hat : hasBit mod ATOMIC = true
          · simp only [hat, ↓reduceIte, hch, visibleList_shift]
          · simp only [hat, Bool.false_eq_true, ↓reduceIte, hch]
        cases c3'.tagStack with
        | nil =>
          simp only []
          refine ⟨_, _, rfl, s4.setTag [], ?_⟩
          simp only [shiftL_append, shiftL, Pair.shift, hvis, hst, s3.pos]
        | cons t ts =>
          simp only []
          refine ⟨_, _, rfl, s4.setTag ts, ?_⟩
          simp only [shiftL_append, shiftL, Pair.shift, hvis, hst, s3.pos]

theorem ruleG_shift {r r' : SemG} (h : ShiftGoodG k r r') (name : String) (mod : Nat)
    (body : Expr) (hb : soiFree body = true) {c c' : PState} (ps' : List Pair) (s : ShiftRel k c c') :
    ResRelG k (LG.ruleG r name mod body c (shiftL k ps')) (LG.ruleG r' name mod body c' ps') := by
  unfold LG.ruleG
  have he := h body _ _ [] hb (ruleEnter_shift name mod s)
  simp only [shiftL] at he
  generalize L1.ruleEnter name mod { c with rstack := c.rstack.push name } = en at he
  generalize L1.ruleEnter name mod { c' with rstack := c'.rstack.push name } = en' at he
  revert he
  cases r body en [] with
  | oof => intro he; simp only [ResRelG] at he; simp only [he]; rfl
  | exc e => intro he; simp only [ResRelG] at he; simp only [he]; rfl
  | done m c2 ch =>
    intro he
    obtain ⟨c2', ch', e', s2, hch⟩ := he
    simp only [e']
    exact ruleExitG_shift name mod m ps' s2 s.pos hch

theorem callRuleG_shift {r r' : SemG} (hg : SOIFree g) (h : ShiftGoodG k r r') (name : String)
    {c c' : PState} (ps' : List Pair) (s : ShiftRel k c c') :
    ResRelG k (LG.callRuleG g r name c (shiftL k ps')) (LG.callRuleG g r' name c' ps') := by
  unfold LG.callRuleG
  cases hl : g.lookup name with
  | none => rfl
  | some rl =>
    simp only []
    by_cases hb : (rl.kind == RuleKind.builtin && rl.name != "EOI") = true
    · simp only [hb, ↓reduceIte]; rfl
    · simp only [hb, Bool.false_eq_true, ↓reduceIte]
      exact ruleG_shift h rl.name rl.mod rl.body (hg rl (lookup_mem hl)) ps' s

theorem withTagG_shift (tag : Option String) {c c' : PState} (s : ShiftRel k c c')
    (body body' : PState → RG)
    (hb : ∀ d d', ShiftRel k d d' → ResRelG k (body d) (body' d')) :
    ResRelG k (LG.withTagG tag c body) (LG.withTagG tag c' body') := by
  unfold LG.withTagG
  cases tag with
  | none => exact hb c c' s
  | some t =>
    simp only []
    have s' : ShiftRel k { c with tagStack := t :: c.tagStack } { c' with tagStack := t :: c'.tagStack } := by
      rw [s.tg.1]; exact s.setTag _
    have h := hb _ _ s'
    revert h
    cases body { c with tagStack := t :: c.tagStack } with
    | oof => intro h; simp only [ResRelG] at h; simp only [h]; rfl
    | exc e => intro h; simp only [ResRelG] at h; simp only [h]; rfl
    | done m d ps =>
      intro h
      obtain ⟨d', ps', e', sd, hps⟩ := h
      simp only [e']
      refine ⟨_, ps', rfl, ?_, hps⟩
      rw [sd.tg.1]; exact sd.setTag _

def TryShiftG (k : Nat) : LG.TryG → LG.TryG → Prop
  | .matched c ps, t' => ∃ c' ps', t' = .matched c' ps' ∧ ShiftRel k c c' ∧ ps = shiftL k ps'
  | .no c ps, t' => ∃ c' ps', t' = .no c' ps' ∧ ShiftRel k c c' ∧ ps = shiftL k ps'
  | .stop r, t' => ∃ r', t' = .stop r' ∧ ResRelG k r r'

theorem tryTriviaG_shift {r r' : SemG} (hg : SOIFree g) (h : ShiftGoodG k r r') (on : Bool)
    (name : String) {c c' : PState} (ps' : List Pair) (s : ShiftRel k c c') :
    TryShiftG k (LG.tryTriviaG g r on name c (shiftL k ps')) (LG.tryTriviaG g r' on name c' ps') := by
  unfold LG.tryTriviaG
  by_cases ho : on = true
  · simp only [ho, Bool.not_true, Bool.false_eq_true, ↓reduceIte]
    have hb := callRuleG_shift g hg h name ps' s.checkpoint
    revert hb
    cases LG.callRuleG g r name c.checkpoint (shiftL k ps') with
    | oof => intro hb; simp only [ResRelG] at hb; simp only [hb]; exact ⟨_, rfl, rfl⟩
    | exc e => intro hb; simp only [ResRelG] at hb; simp only [hb]; exact ⟨_, rfl, rfl⟩
    | done m d ps =>
      intro hb
      obtain ⟨d', ps2', e', sd, hps⟩ := hb
      simp only [e']
      cases m with
      | true => exact ⟨_, ps2', rfl, sd.ok, hps⟩
      | false => exact ⟨_, ps2', rfl, sd.restore, hps⟩
  · simp only [ho, Bool.not_false, ↓reduceIte]
    exact ⟨c', ps', rfl, s, rfl⟩

theorem triviaLoopG_shift {r r' : SemG} (hg : SOIFree g) (h : ShiftGoodG k r r') (hasWs hasCm : Bool) :
    ∀ (n : Nat) (c c' : PState) (ps' : List Pair), ShiftRel k c c' →
      ResRelG k (LG.triviaLoopG g r hasWs hasCm n c (shiftL k ps')) (LG.triviaLoopG g r' hasWs hasCm n c' ps') := by
  intro n
  induction n with
  | zero => intro c c' ps' _; rfl
  | succ n ih =>
    intro c c' ps' s
    simp only [LG.triviaLoopG]
    have h1 := tryTriviaG_shift g hg h hasWs "WHITESPACE" ps' s
    revert h1
    cases LG.tryTriviaG g r hasWs "WHITESPACE" c (shiftL k ps') with
    | matched d ps =>
      intro h1
      obtain ⟨d', ps2', e', sd, hps⟩ := h1
      simp only [e']
      rw [hps]
      exact ih d d' ps2' sd
    | stop x =>
      intro h1
      obtain ⟨x', e', hx⟩ := h1
      simp only [e']
      exact hx
    | no c1 ps1 =>
      intro h1
      obtain ⟨c1', ps1', e', s1, hps1⟩ := h1
      simp only [e']
      rw [hps1]
      have h2 := tryTriviaG_shift g hg h hasCm "COMMENT" ps1' s1
      revert h2
      cases LG.tryTriviaG g r hasCm "COMMENT" c1 (shiftL k ps1') with
      | matched d ps =>
        intro h2
        obtain ⟨d', ps2', e2, sd, hps⟩ := h2
        simp only [e2]
        rw [hps]
        exact ih d d' ps2' sd
      | stop x =>
        intro h2
        obtain ⟨x', e2, hx⟩ := h2
        simp only [e2]
        exact hx
      | no c2 ps2 =>
        intro h2
        obtain ⟨c2', ps2', e2, s2, hps2⟩ := h2
        simp only [e2]
        exact ⟨c2', ps2', rfl, s2, hps2⟩

theorem parseTriviaG_shift {r r' : SemG} (hg : SOIFree g) (h : ShiftGoodG k r r') (n : Nat)
    {c c' : PState} (ps' : List Pair) (s : ShiftRel k c c') :
    ResRelG k (LG.parseTriviaG g r n c (shiftL k ps')) (LG.parseTriviaG g r' n c' ps') := by
  unfold LG.parseTriviaG
  have hav : c.adepth.val = c'.adepth.val := by rw [s.ad]
  simp only [hav]
  by_cases hn : (!(g.fusedSkip.isSome || g.defines "WHITESPACE" || g.defines "COMMENT")) = true
  · simp only [hn, ↓reduceIte]; exact ⟨c', ps', rfl, s, rfl⟩
  · simp only [hn, Bool.false_eq_true, ↓reduceIte]
    by_cases ha : c'.adepth.val > 0
    · simp only [ha, ↓reduceIte]; exact ⟨c', ps', rfl, s, rfl⟩
    · simp only [ha, ↓reduceIte]
      by_cases hsk : g.fusedSkip.isSome = true
      · simp only [hsk, ↓reduceIte]
        exact callRuleG_shift g hg h "SKIP" ps' s
      · simp only [hsk, Bool.false_eq_true, ↓reduceIte]
        have hl := triviaLoopG_shift g hg h (g.defines "WHITESPACE") (g.defines "COMMENT") n
          { c with suppress := true } { c' with suppress := true } ps' (s.setSuppress true)
        revert hl
        cases LG.triviaLoopG g r (g.defines "WHITESPACE") (g.defines "COMMENT") n
            { c with suppress := true } (shiftL k ps') with
        | oof => intro hl; simp only [ResRelG] at hl; simp only [hl]; rfl
        | exc e => intro hl; simp only [ResRelG] at hl; simp only [hl]; rfl
        | done m d ps =>
          intro hl
          obtain ⟨d', ps2', e', sd, hps⟩ := hl
          simp only [e']
          exact ⟨_, ps2', rfl, sd.setSuppress false, hps⟩

theorem seqG_shift {r r' : SemG} (hg : SOIFree g) (h : ShiftGoodG k r r') (n : Nat) :
    ∀ (es : List Expr) (c c' : PState) (ps' : List Pair), (∀ e ∈ es, soiFree e = true) →
      ShiftRel k c c' →
      ResRelG k (LG.seqG g r n es c (shiftL k ps')) (LG.seqG g r' n es c' ps') := by
  intro es
  induction es with
  | nil => intro c c' ps' _ s; exact ⟨c', ps', rfl, s, rfl⟩
  | cons e rest ih =>
    intro c c' ps' hes s
    simp only [LG.seqG]
    have he := h e c c' ps' (hes e (by simp)) s
    revert he
    cases r e c (shiftL k ps') with
    | oof => intro he; simp only [ResRelG] at he; simp only [he]; rfl
    | exc x => intro he; simp only [ResRelG] at he; simp only [he]; rfl
    | done m c1 ps1 =>
      intro he
      obtain ⟨c1', ps1', e', s1, hps⟩ := he
      simp only [e']
      cases m with
      | false => exact ⟨c1', ps1', rfl, s1, hps⟩
      | true =>
        simp only []
        by_cases hr : rest.isEmpty = true
        · simp only [hr, ↓reduceIte]
          exact ⟨c1', ps1', rfl, s1, hps⟩
        · simp only [hr, Bool.false_eq_true, ↓reduceIte]
          rw [hps]
          have ht := parseTriviaG_shift g hg h n ps1' s1
          revert ht
          cases LG.parseTriviaG g r n c1 (shiftL k ps1') with
          | oof => intro ht; simp only [ResRelG] at ht; simp only [ht]; rfl
          | exc x => intro ht; simp only [ResRelG] at ht; simp only [ht]; rfl
          | done m2 c2 ps2 =>
            intro ht
            obtain ⟨c2', ps2', e2, s2, hps2⟩ := ht
            simp only [e2]
            rw [hps2]
            exact ih c2 c2' ps2' (fun x hx => hes x (by simp [hx])) s2

theorem choiceG_shift {r r' : SemG} (h : ShiftGoodG k r r') :
    ∀ (es : List Expr) (c c' : PState) (ps' : List Pair), (∀ e ∈ es, soiFree e = true) →
      ShiftRel k c c' →
      ResRelG k (LG.choiceG r es c (shiftL k ps')) (LG.choiceG r' es c' ps') := by
  intro es
  induction es with
  | nil => intro c c' ps' _ s; exact ⟨c', ps', rfl, s, rfl⟩
  | cons e rest ih =>
    intro c c' ps' hes s
    simp only [LG.choiceG]
    have he := h e _ _ [] (hes e (by simp)) s.checkpoint
    simp only [shiftL] at he
    revert he
    cases r e c.checkpoint [] with
    | oof => intro he; simp only [ResRelG] at he; simp only [he]; rfl
    | exc x => intro he; simp only [ResRelG] at he; simp only [he]; rfl
    | done m c1 tmp =>
      intro he
      obtain ⟨c1', tmp', e', s1, htmp⟩ := he
      simp only [e']
      cases m with
      | true => exact ⟨_, _, rfl, s1.ok, by rw [shiftL_append, htmp]⟩
      | false => exact ih _ _ ps' (fun x hx => hes x (by simp [hx])) s1.restore

theorem repLoopG_shift {r r' : SemG} (hg : SOIFree g) (h : ShiftGoodG k r r') (e : Expr)
    (he : soiFree e = true) (kk : Nat) :
    ∀ (n : Nat) (first : Bool) (c c' : PState) (ps' : List Pair), ShiftRel k c c' →
      ResRelG k (LG.repLoopG g r e n kk first c (shiftL k ps')) (LG.repLoopG g r' e n kk first c' ps') := by
  intro n
  induction n with
  | zero => intro first c c' ps' _; rfl
  | succ n ih =>
    intro first c c' ps' s
    simp only [LG.repLoopG]
    have hT : ResRelG k
        (if first = true then RG.done true c.checkpoint [] else LG.parseTriviaG g r kk c.checkpoint [])
        (if first = true then RG.done true c'.checkpoint [] else LG.parseTriviaG g r' kk c'.checkpoint []) := by
      by_cases hf : first = true
      · simp only [hf, ↓reduceIte]; exact ⟨_, [], rfl, s.checkpoint, rfl⟩
      · simp only [hf, Bool.false_eq_true, ↓reduceIte]
        have := parseTriviaG_shift g hg h kk [] s.checkpoint
        simpa only [shiftL] using this
    revert hT
    cases (if first = true then RG.done true c.checkpoint [] else LG.parseTriviaG g r kk c.checkpoint []) with
    | oof => intro hT; simp only [ResRelG] at hT; simp only [hT]; rfl
    | exc x => intro hT; simp only [ResRelG] at hT; simp only [hT]; rfl
    | done m c1 tmp =>
      intro hT
      obtain ⟨c1', tmp', e1, s1, htmp⟩ := hT
      simp only [e1]
      rw [htmp]
      have hb := h e c1 c1' tmp' he s1
      revert hb
      cases r e c1 (shiftL k tmp') with
      | oof => intro hb; simp only [ResRelG] at hb; simp only [hb]; rfl
      | exc x => intro hb; simp only [ResRelG] at hb; simp only [hb]; rfl
      | done m2 c2 tmp2 =>
        intro hb
        obtain ⟨c2', tmp2', e2, s2, htmp2⟩ := hb
        simp only [e2]
        cases m2 with
        | true =>
          have := ih false c2.ok c2'.ok (ps' ++ tmp2') s2.ok
          rw [shiftL_append, ← htmp2] at this
          exact this
        | false => exact ⟨_, ps', rfl, s2.restore, rfl⟩

theorem stepG_shift {r r' : SemG} (hS : Shifted k inp inp') (hg : SOIFree g) (n : Nat)
    (h : ShiftGoodG k r r') : ShiftGoodG k (LG.step g inp n r) (LG.step g inp' n r') := by
  intro e c c' ps' hf s
  have hpos := s.pos
  have eSW : ∀ x, startsWithAt inp x c.pos = startsWithAt inp' x c'.pos := fun x => by
    rw [hpos, startsWithAt_shift hS]
  have eCI : ∀ x, startsWithAtCI inp x c.pos = startsWithAtCI inp' x c'.pos := fun x => by
    rw [hpos, startsWithAtCI_shift hS]
  have eGet : inp[c.pos]? = inp'[c'.pos]? := by rw [hpos, hS.get]
  have eMA : ∀ ls, L1.matchAll inp ls c.pos = (L1.matchAll inp' ls c'.pos).map (· + k) := fun ls => by
    rw [hpos, matchAll_shift hS]
  have eItems : c.ustack.items = c'.ustack.items := by rw [s.us]
  have ePeek : c.ustack.peek = c'.ustack.peek := by rw [s.us]
  have ePop : c.ustack.pop = c'.ustack.pop := by rw [s.us]
  cases e with
  | str x =>
    simp only [LG.step]
    rw [eSW]
    by_cases hm : startsWithAt inp' x c'.pos = true
    · simp only [hm, ↓reduceIte]
      exact ⟨_, ps', rfl, s.setPos (by omega), rfl⟩
    · simp only [hm, Bool.false_eq_true, ↓reduceIte]; exact failTG_shift ps' s
  | ci x =>
    simp only [LG.step]
    rw [eCI]
    by_cases hm : startsWithAtCI inp' x c'.pos = true
    · simp only [hm, ↓reduceIte]
      exact ⟨_, ps', rfl, s.setPos (by omega), rfl⟩
    · simp only [hm, Bool.false_eq_true, ↓reduceIte]; exact failTG_shift ps' s
  | range a b =>
    simp only [LG.step]
    rw [eGet]
    cases inp'[c'.pos]? with
    | none => exact failTG_shift ps' s
    | some x =>
      simp only []
      by_cases hm : L1.inRange a b x = true
      · simp only [hm, ↓reduceIte]
        exact ⟨_, ps', rfl, s.setPos (by omega), rfl⟩
      · simp only [hm, Bool.false_eq_true, ↓reduceIte]; exact failTG_shift ps' s
  | ident name tag =>
    simp only [LG.step]
    exact withTagG_shift tag s _ _ (fun d d' sd => callRuleG_shift g hg h name ps' sd)
  | rule name mod sm body =>
    simp only [LG.step]
    simp only [soiFree] at hf
    by_cases hE : (name == "EOI" || !hasBit mod SILENT || L1.ruleScoped name mod) = true
    · simp only [hE, ↓reduceIte]; rfl
    · simp only [hE, Bool.false_eq_true, ↓reduceIte]
      exact h body c c' ps' hf s
  | seq es =>
    simp only [soiFree] at hf
    exact seqG_shift g hg h n es c c' ps' ((soiFreeL_iff es).1 hf) s
  | choice es =>
    simp only [soiFree] at hf
    exact choiceG_shift h es c c' ps' ((soiFreeL_iff es).1 hf) s
  | opt e =>
    simp only [LG.step]
    simp only [soiFree] at hf
    have he := h e _ _ [] hf s.checkpoint
    simp only [shiftL] at he
    revert he
    cases r e c.checkpoint [] with
    | oof => intro he; simp only [ResRelG] at he; simp only [he]; rfl
    | exc x => intro he; simp only [ResRelG] at he; simp only [he]; rfl
    | done m c1 tmp =>
      intro he
      obtain ⟨c1', tmp', e', s1, htmp⟩ := he
      simp only [e']
      cases m with
      | true => exact ⟨_, _, rfl, s1.ok, by rw [shiftL_append, htmp]⟩
      | false => exact ⟨_, ps', rfl, s1.restore, rfl⟩
  | rep e =>
    simp only [soiFree] at hf
    exact repLoopG_shift g hg h e hf n n true c c' ps' s
  | rep1 e =>
    simp only [soiFree] at hf
    exact seqG_shift g hg h n [e, .rep e] c c' ps' (by simp [soiFree, hf]) s
  | repExact e m =>
    simp only [soiFree] at hf
    exact seqG_shift g hg h n (List.replicate m e) c c' ps'
      (by intro x hx; rw [(List.mem_replicate.1 hx).2]; exact hf) s
  | repMin e m =>
    simp only [soiFree] at hf
    refine seqG_shift g hg h n (List.replicate m e ++ [.rep e]) c c' ps' ?_ s
    intro x hx
    rcases List.mem_append.1 hx with hx | hx
    · rw [(List.mem_replicate.1 hx).2]; exact hf
    · simp only [List.mem_singleton] at hx; rw [hx]; simpa [soiFree] using hf
  | repMax e m =>
    simp only [soiFree] at hf
    refine seqG_shift g hg h n (List.replicate m (.opt e)) c c' ps' ?_ s
    intro x hx; rw [(List.mem_replicate.1 hx).2]; simpa [soiFree] using hf
  | repMinMax e m m2 =>
    simp only [soiFree] at hf
    refine seqG_shift g hg h n (List.replicate m e ++ List.replicate (m2 - m) (.opt e)) c c' ps' ?_ s
    intro x hx
    rcases List.mem_append.1 hx with hx | hx
    · rw [(List.mem_replicate.1 hx).2]; exact hf
    · rw [(List.mem_replicate.1 hx).2]; simpa [soiFree] using hf
  | andP e =>
    simp only [LG.step]
    simp only [soiFree] at hf
    have he := h e _ _ [] hf s.checkpoint
    simp only [shiftL] at he
    revert he
    cases r e c.checkpoint [] with
    | oof => intro he; simp only [ResRelG] at he; simp only [he]; rfl
    | exc x => intro he; simp only [ResRelG] at he; simp only [he]; rfl
    | done m c1 tmp =>
      intro he
      obtain ⟨c1', tmp', e', s1, htmp⟩ := he
      simp only [e']
      exact ⟨_, ps', rfl, s1.restore, rfl⟩
  | notP e =>
    simp only [LG.step]
    simp only [soiFree] at hf
    have sc : ShiftRel k { c.checkpoint with negDepth := c.checkpoint.negDepth + 1 }
        { c'.checkpoint with negDepth := c'.checkpoint.negDepth + 1 } := by
      have hn : c.checkpoint.negDepth = c'.checkpoint.negDepth := s.checkpoint.nd
      rw [hn]; exact s.checkpoint.setNeg _
    have he := h e _ _ [] hf sc
    simp only [shiftL] at he
    revert he
    cases r e { c.checkpoint with negDepth := c.checkpoint.negDepth + 1 } [] with
    | oof => intro he; simp only [ResRelG] at he; simp only [he]; rfl
    | exc x => intro he; simp only [ResRelG] at he; simp only [he]; rfl
    | done m c1 tmp =>
      intro he
      obtain ⟨c1', tmp', e', s1, htmp⟩ := he
      simp only [e']
      have sr := s1.restore
      cases m with
      | false =>
        simp only [Bool.false_eq_true, ↓reduceIte]
        refine ⟨_, ps', rfl, ?_, rfl⟩
        have hn : c1.restore.negDepth = c1'.restore.negDepth := sr.nd
        rw [hn]; exact sr.setNeg _
      | true =>
        simp only [↓reduceIte]
        rcases fail_shift sr (L1.failedName e) true with ⟨h1, h2⟩ | ⟨d, d', h1, h2, sd⟩
        · simp only [h1, h2]; rfl
        · simp only [h1, h2]
          refine ⟨_, ps', rfl, ?_, rfl⟩
          rw [sd.nd]; exact sd.setNeg _
  | group e tag =>
    simp only [LG.step]
    simp only [soiFree] at hf
    exact withTagG_shift tag s _ _ (fun d d' sd => h e d d' ps' hf sd)
  | push e =>
    simp only [LG.step]
    simp only [soiFree] at hf
    have he := h e c c' ps' hf s
    revert he
    cases r e c (shiftL k ps') with
    | oof => intro he; simp only [ResRelG] at he; simp only [he]; rfl
    | exc x => intro he; simp only [ResRelG] at he; simp only [he]; rfl
    | done m c1 ps1 =>
      intro he
      obtain ⟨c1', ps1', e', s1, hps⟩ := he
      simp only [e']
      cases m with
      | false => exact ⟨_, ps1', rfl, s1, hps⟩
      | true =>
        simp only []
        refine ⟨_, ps1', rfl, ?_, hps⟩
        have e1 : slice inp c.pos c1.pos = slice inp' c'.pos c1'.pos := by
          rw [hpos, s1.pos, slice_shift hS]
        rw [e1, s1.us]
        exact s1.setUstack _
  | pushLit x =>
    simp only [LG.step]
    refine ⟨_, ps', rfl, ?_, rfl⟩
    rw [s.us]; exact s.setUstack _
  | peekSlice a b =>
    simp only [LG.step, LG.matchAllG]
    rw [eMA, eItems]
    cases L1.matchAll inp' (pySlice c'.ustack.items.reverse a b) c'.pos with
    | none => exact failTG_shift ps' s
    | some q => exact ⟨_, ps', rfl, s.setPos rfl, rfl⟩
  | peek =>
    simp only [LG.step]
    rw [ePeek]
    cases c'.ustack.peek with
    | none => exact ⟨c', ps', rfl, s, rfl⟩
    | some v =>
      simp only []
      rw [eSW]
      by_cases hm : startsWithAt inp' v c'.pos = true
      · simp only [hm, ↓reduceIte]
        exact ⟨_, ps', rfl, s.setPos (by omega), rfl⟩
      · simp only [hm, Bool.false_eq_true, ↓reduceIte]; exact failTG_shift ps' s
  | peekAll =>
    simp only [LG.step, LG.matchAllG]
    rw [eMA, eItems]
    cases L1.matchAll inp' c'.ustack.items c'.pos with
    | none => exact failTG_shift ps' s
    | some q => exact ⟨_, ps', rfl, s.setPos rfl, rfl⟩
  | pop =>
    simp only [LG.step]
    rw [ePeek]
    cases c'.ustack.peek with
    | none => exact ⟨c', ps', rfl, s, rfl⟩
    | some v =>
      simp only []
      rw [eSW]
      by_cases hm : startsWithAt inp' v c'.pos = true
      · simp only [hm, ↓reduceIte]
        rw [ePop]
        cases c'.ustack.pop with
        | none => rfl
        | some q =>
          obtain ⟨x, us⟩ := q
          exact ⟨_, ps', rfl, (s.setUstack us).setPos (by omega), rfl⟩
      · simp only [hm, Bool.false_eq_true, ↓reduceIte]; exact failTG_shift ps' s
  | popAll =>
    simp only [LG.step, LG.matchAllG]
    rw [eMA, eItems]
    cases L1.matchAll inp' c'.ustack.items c'.pos with
    | none => exact failTG_shift ps' s
    | some q =>
      simp only [Option.map_some]
      rw [s.us]
      exact ⟨_, ps', rfl, (s.setUstack _).setPos rfl, rfl⟩
  | drop =>
    simp only [LG.step]
    rw [ePop]
    cases c'.ustack.pop with
    | none => exact failTG_shift ps' s
    | some q =>
      obtain ⟨x, us⟩ := q
      exact ⟨_, ps', rfl, s.setUstack us, rfl⟩
  | anyB =>
    simp only [LG.step]
    have hsz := hS.size
    by_cases hm : c'.pos < inp'.size
    · have hm' : c.pos < inp.size := by omega
      simp only [hm, hm', ↓reduceIte]
      exact ⟨_, ps', rfl, s.setPos (by omega), rfl⟩
    · have hm' : ¬ c.pos < inp.size := by omega
      simp only [hm, hm', ↓reduceIte]
      exact ⟨c', ps', rfl, s, rfl⟩
  | soiB => simp [soiFree] at hf
  | eoiB =>
    simp only [LG.step]
    have hsz := hS.size
    have : (c.pos == inp.size) = (c'.pos == inp'.size) := by
      rw [Bool.eq_iff_iff]; simp only [beq_iff_eq]; omega
    rw [this]
    exact ⟨c', ps', rfl, s, rfl⟩
  | uprop nm =>
    simp only [LG.step]
    rw [eGet]
    cases inp'[c'.pos]? with
    | none => exact ⟨c', ps', rfl, s, rfl⟩
    | some x =>
      simp only []
      by_cases hm : g.uprop nm x = true
      · simp only [hm, ↓reduceIte]
        exact ⟨_, ps', rfl, s.setPos (by omega), rfl⟩
      · simp only [hm, Bool.false_eq_true, ↓reduceIte]; exact ⟨c', ps', rfl, s, rfl⟩
  | skipUntil subs =>
    simp only [LG.step]
    have e1 : L1.skipUntilPos inp subs c.pos = L1.skipUntilPos inp' subs c'.pos + k := by
      rw [hpos, skipUntilPos_shift hS]
    rw [e1]
    exact ⟨_, ps', rfl, s.setPos rfl, rfl⟩
  | optChoice alts star =>
    simp only [LG.step]
    have e1 : L1.optMatch g inp alts star c.pos = (L1.optMatch g inp' alts star c'.pos).map (· + k) := by
      rw [hpos, optMatch_shift hS]
    rw [e1]
    cases L1.optMatch g inp' alts star c'.pos with
    | none => exact ⟨c', ps', rfl, s, rfl⟩
    | some q => exact ⟨_, ps', rfl, s.setPos rfl, rfl⟩

/-- **shift invariance of the generated-code model**, every expression, every fuel -/
theorem runG_shift (hS : Shifted k inp inp') (hg : SOIFree g) :
    ∀ n, ShiftGoodG k (LG.run g inp n) (LG.run g inp' n) := by
  intro n
  induction n with
  | zero => intro e c c' ps' _ _; rfl
  | succ n ih => exact stepG_shift g hS hg n ih

end lg

end Pest
