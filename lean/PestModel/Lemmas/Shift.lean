/-
  Lemmas/Shift.lean — shift invariance of the interpreter model L1 and of the generated-code
  model LG (property C16).

  `Shifted k inp inp'`   `inp'` is `inp` without its first `k` elements.
  `ShiftRel k c c'`      `c` (over `inp`) is `c'` (over `inp'`) with every position moved by `k`:
                         current position, position history, furthest-failure position (the
                         sentinel `-1` stays `-1`); everything else is equal.
  `ResRel k r r'`        same verdict, `ShiftRel`-related end states, pairs equal up to adding `k`
                         to every start/stop.
  Every primitive matcher is position-relative (`startsWithAt`, `inp[p]?`, `slice`, `findFrom`,
  `skipUntilPos`, `optMatch*`, `matchAll`, `pos == inp.size`); the only node that is not is
  `.soiB` (`pos == 0`), which the hypothesis `soiFree` excludes.
-/
import PestModel.Gen

namespace Pest

/-! ### the suffix of an input -/

structure Shifted (k : Nat) (inp inp' : Input) : Prop where
  size : inp.size = inp'.size + k
  get : ∀ p, inp[p + k]? = inp'[p]?

theorem shifted_extract {k : Nat} {inp : Input} (h : k ≤ inp.size) :
    Shifted k inp (inp.extract k inp.size) := by
  constructor
  · simp; omega
  · intro p
    rw [Array.getElem?_extract]
    by_cases hp : p < min inp.size inp.size - k
    · simp only [hp, ↓reduceIte]; rw [Nat.add_comm]
    · simp only [hp, ↓reduceIte]
      apply Array.getElem?_eq_none
      simp at hp; omega

theorem foldl_getD_rel {k : Nat} {f f' : Option Nat → Str → Option Nat}
    (h : ∀ b s, f (b.map (· + k)) s = (f' b s).map (· + k)) (subs : List Str) (n n' : Nat)
    (hn : n = n' + k) : (subs.foldl f none).getD n = (subs.foldl f' none).getD n' + k := by
  have key : ∀ (subs : List Str) (b : Option Nat),
      subs.foldl f (b.map (· + k)) = (subs.foldl f' b).map (· + k) := by
    intro subs
    induction subs with
    | nil => intro b; rfl
    | cons s rest ih => intro b; simp only [List.foldl_cons]; rw [h, ih]
  have := key subs none
  simp only [Option.map_none] at this
  rw [this]
  cases subs.foldl f' none with
  | none => simpa using hn
  | some q => simp

section prim
variable {k : Nat} {inp inp' : Input} (hS : Shifted k inp inp')
include hS

theorem startsWithAt_shift (x : Str) : ∀ p, startsWithAt inp x (p + k) = startsWithAt inp' x p := by
  induction x with
  | nil => intro p; simp only [startsWithAt, hS.size]; simp
  | cons c rest ih =>
    intro p
    simp only [startsWithAt, hS.get]
    rw [show p + k + 1 = (p + 1) + k by omega, ih]

theorem startsWithAtCI_shift (x : Str) : ∀ p, startsWithAtCI inp x (p + k) = startsWithAtCI inp' x p := by
  induction x with
  | nil => intro p; simp only [startsWithAtCI, hS.size]; simp
  | cons c rest ih =>
    intro p
    simp only [startsWithAtCI, hS.get]
    rw [show p + k + 1 = (p + 1) + k by omega, ih]

theorem slice_shift (a b : Nat) : slice inp (a + k) (b + k) = slice inp' a b := by
  unfold slice
  apply List.ext_getElem?
  intro i
  simp only [Array.getElem?_toList, Array.getElem?_extract]
  have hsz := hS.size
  by_cases h1 : i < min b inp'.size - a
  · have h2 : i < min (b + k) inp.size - (a + k) := by omega
    simp only [h1, h2, ↓reduceIte]
    rw [show a + k + i = (a + i) + k by omega, hS.get]
  · have h2 : ¬ i < min (b + k) inp.size - (a + k) := by omega
    simp only [h1, h2, ↓reduceIte]

theorem findFrom_go_shift (sub : Str) : ∀ n p,
    findFrom.go inp sub n (p + k) = (findFrom.go inp' sub n p).map (· + k) := by
  intro n
  induction n with
  | zero => intro p; simp [findFrom.go]
  | succ n ih =>
    intro p
    simp only [findFrom.go, startsWithAt_shift hS]
    by_cases hm : startsWithAt inp' sub p = true
    · simp [hm]
    · simp only [hm, Bool.false_eq_true, ↓reduceIte]
      rw [show p + k + 1 = (p + 1) + k by omega, ih]

theorem findFrom_shift (sub : Str) (p : Nat) :
    findFrom inp sub (p + k) = (findFrom inp' sub p).map (· + k) := by
  unfold findFrom
  have hsz := hS.size
  by_cases h : p > inp'.size
  · have h' : p + k > inp.size := by omega
    simp [h, h']
  · have h' : ¬ p + k > inp.size := by omega
    simp only [h, h', ↓reduceIte]
    rw [show inp.size + 1 - (p + k) = inp'.size + 1 - p by omega]
    exact findFrom_go_shift hS sub _ p

theorem skipUntilPos_shift (subs : List Str) (p : Nat) :
    L1.skipUntilPos inp subs (p + k) = L1.skipUntilPos inp' subs p + k := by
  unfold L1.skipUntilPos
  refine foldl_getD_rel ?_ subs _ _ hS.size
  intro b s
  simp only [findFrom_shift hS]
  cases findFrom inp' s p with
  | none => rfl
  | some q =>
    cases b with
    | none => rfl
    | some r =>
      simp only [Option.map_some]
      by_cases h : q < r
      · have : q + k < r + k := by omega
        simp [h, this]
      · have : ¬ q + k < r + k := by omega
        simp [h, this]

theorem matchAll_shift (ls : List Str) : ∀ p,
    L1.matchAll inp ls (p + k) = (L1.matchAll inp' ls p).map (· + k) := by
  induction ls with
  | nil => intro p; rfl
  | cons l rest ih =>
    intro p
    simp only [L1.matchAll, startsWithAt_shift hS]
    by_cases hm : startsWithAt inp' l p = true
    · simp only [hm, ↓reduceIte]
      rw [show p + k + l.length = (p + l.length) + k by omega, ih]
    · simp [hm]

theorem optMatchOnce_shift (g : Grammar) (alts : List Alt) (p : Nat) :
    L1.optMatchOnce g inp alts (p + k) = (L1.optMatchOnce g inp' alts p).map (· + k) := by
  unfold L1.optMatchOnce
  have e1 : (fun x => startsWithAt inp x (p + k)) = (fun x => startsWithAt inp' x p) := by
    funext x; exact startsWithAt_shift hS x p
  have e2 : (fun x => startsWithAtCI inp x (p + k)) = (fun x => startsWithAtCI inp' x p) := by
    funext x; exact startsWithAtCI_shift hS x p
  simp only [e1, e2, hS.get]
  split
  · simp only [Option.map_some]; congr 1; omega
  · split
    · simp only [Option.map_some]; congr 1; omega
    · cases inp'[p]? with
      | none => rfl
      | some c =>
        simp only []
        split
        · simp only [Option.map_some]; congr 1; omega
        · split
          · simp only [Option.map_some]; congr 1; omega
          · rfl

theorem optMatchStar_shift (g : Grammar) (alts : List Alt) : ∀ n p,
    L1.optMatchStar g inp alts n (p + k) = L1.optMatchStar g inp' alts n p + k := by
  intro n
  induction n with
  | zero => intro p; rfl
  | succ n ih =>
    intro p
    simp only [L1.optMatchStar, optMatchOnce_shift hS]
    cases L1.optMatchOnce g inp' alts p with
    | none => rfl
    | some q =>
      simp only [Option.map_some]
      by_cases h : q > p
      · have : q + k > p + k := by omega
        simp only [h, this, ↓reduceIte]; exact ih q
      · have : ¬ q + k > p + k := by omega
        simp only [h, this, ↓reduceIte]

theorem optMatch_shift (g : Grammar) (alts : List Alt) (star : Bool) (p : Nat) :
    L1.optMatch g inp alts star (p + k) = (L1.optMatch g inp' alts star p).map (· + k) := by
  unfold L1.optMatch
  by_cases he : alts.isEmpty = true
  · simp [he]
  · simp only [he, Bool.false_eq_true, ↓reduceIte]
    by_cases hs : star = true
    · simp only [hs, ↓reduceIte, Option.map_some]
      rw [show inp.size + 1 - (p + k) = inp'.size + 1 - p by have := hS.size; omega,
        optMatchStar_shift hS]
    · simp only [hs, Bool.false_eq_true, ↓reduceIte]
      exact optMatchOnce_shift hS g alts p

end prim

end Pest
