/-
  Lemmas/OptSoundKeeps.lean — what `Opt.optimize` keeps, beyond the meaning (C02):

  * `optimize_keeps_kind`        name, modifier and kind of every rule; the added `SKIP` (if any) is a
                                 grammar rule with modifier SILENT+ATOMIC                  (no hypothesis)
  * `optimizer_keeps_callable`   `C07.callable`                                            (no hypothesis)
  * `optimizer_keeps_genShape`   `C07.GenShape`                                            (under `OptS.WF g`)
  * `optimizer_keeps_tags`       `C06.GTagOK g' t → C06.GTagOK g t`                        (under `OptS.WF g`)
-/
import PestModel.Lemmas.OptSoundFinal
import PestModel.Hyps
import PestModel.Props.C07
import PestModel.Props.C06

set_option linter.unusedVariables false

namespace Pest
namespace OptS

open L0

/-! ### (a) name, modifier and kind -/

/-- name, modifier and kind of the rule a name refers to -/
def sig3 (G : Grammar) (n : String) : Option (String × Nat × RuleKind) :=
  (G.lookup n).map fun r => (r.name, r.mod, r.kind)

theorem sig3_setBody (G : Grammar) (i : Nat) (h : i < G.rules.length) (b' : Expr) (name : String) :
    sig3 (setBody G i h b') name = sig3 G name := by
  unfold sig3
  rcases lookup_setBody G i h b' name with ⟨h1, h2⟩ | ⟨r, h1, h2 | ⟨h2, h3⟩⟩
  · rw [h1, h2]
  · rw [h1, h2]
  · rw [h1, h3]; subst h2; rfl

theorem runStep_sig3 {g : Grammar} {p : Opt.Pass} :
    ∀ (d i : Nat) (rules rules' : List Rule), rules.length - i = d → Opt.runStep g p i rules = some rules' →
      ∀ n, sig3 { g with rules := rules' } n = sig3 { g with rules := rules } n := by
  intro d
  induction d with
  | zero =>
    intro i rules rules' hd h n
    rw [Opt.runStep] at h
    have : ¬ i < rules.length := by omega
    simp only [this, ↓reduceDIte, Option.some.injEq] at h
    subst h; rfl
  | succ d ih =>
    intro i rules rules' hd h n
    rw [Opt.runStep] at h
    have hi : i < rules.length := by omega
    simp only [hi, ↓reduceDIte] at h
    by_cases hskip : (rules[i].kind == RuleKind.builtin ||
        (p.atomicOnly && !Opt.isAtomicRule rules rules[i])) = true
    · rw [if_pos hskip] at h
      exact ih (i + 1) rules rules' (by omega) h n
    · rw [if_neg hskip] at h
      cases hro : Opt.runOnce g rules p rules[i].body with
      | none => rw [hro] at h; exact absurd h (by simp)
      | some b =>
        rw [hro] at h
        simp only [] at h
        rw [ih (i + 1) _ rules' (by simp; omega) h n]
        exact sig3_setBody { g with rules := rules } i hi b n

theorem fold_sig3 {g : Grammar} : ∀ (passes : List Opt.Pass) (rules rules' : List Rule),
    passes.foldl (fun acc p => acc.bind fun rs => Opt.runStep g p 0 rs) (some rules) = some rules' →
    ∀ n, sig3 { g with rules := rules' } n = sig3 { g with rules := rules } n := by
  intro passes
  induction passes with
  | nil =>
    intro rules rules' h n
    simp only [List.foldl_nil, Option.some.injEq] at h
    subst h; rfl
  | cons p rest ih =>
    intro rules rules' h n
    simp only [List.foldl_cons, Option.bind_some] at h
    cases h1 : Opt.runStep g p 0 rules with
    | none =>
      rw [h1] at h
      have : ∀ (l : List Opt.Pass),
          l.foldl (fun acc p => acc.bind fun rs => Opt.runStep g p 0 rs) (none : Option (List Rule)) = none := by
        intro l; induction l with
        | nil => rfl
        | cons _ _ ih => simpa using ih
      rw [this] at h
      exact absurd h (by simp)
    | some rules1 =>
      rw [h1] at h
      rw [ih rules1 rules' h n]
      exact runStep_sig3 _ 0 rules rules1 rfl h1 n

/-- what `_optimize_skip_rule` does to the signature -/
theorem optSkip_sig3 (g : Grammar) (n : String) :
    sig3 { g with rules := Opt.optimizeSkipRule g g.rules } n = sig3 g n ∨
    (n = "SKIP" ∧ g.lookup "SKIP" = none ∧
      sig3 { g with rules := Opt.optimizeSkipRule g g.rules } n = some ("SKIP", SILENT + ATOMIC, .grammar)) := by
  have key : ∀ body, Opt.optimizeSkipRule g g.rules = g.rules ++ [skipRule body] →
      g.rules.any (·.name == "SKIP") = false →
      sig3 { g with rules := Opt.optimizeSkipRule g g.rules } n = sig3 g n ∨
      (n = "SKIP" ∧ g.lookup "SKIP" = none ∧
        sig3 { g with rules := Opt.optimizeSkipRule g g.rules } n = some ("SKIP", SILENT + ATOMIC, .grammar)) := by
    intro body h hany
    have hns := (any_skip_iff g).1 hany
    rw [h]
    by_cases hn : n = "SKIP"
    · right
      refine ⟨hn, hns, ?_⟩
      subst hn
      show ((ext g body).lookup "SKIP").map _ = _
      rw [(lookup_ext g body hns).2]; rfl
    · left
      show ((ext g body).lookup n).map _ = _
      rw [lookup_ext_ne g body n hn]; rfl
  rcases optSkip_cases g g.rules with h | ⟨hany, cr, _, _, _, h⟩ | ⟨hany, wr, es, alts, _, _, _, _, _, _, h⟩
  · left; rw [h]
  · exact key _ h hany
  · exact key _ h hany

/-- **(a)** `optimize` keeps the name, modifier and kind of every rule; the only rule it can add is
    `SKIP`, a grammar rule with modifier `SILENT+ATOMIC`, and only when the grammar has no rule of
    that name (no hypothesis on the grammar or the pass list) -/
theorem optimize_keeps_kind {g g' : Grammar} {passes : List Opt.Pass} (h : Opt.optimize g passes = some g')
    (n : String) :
    (g'.lookup n).map (fun r => (r.name, r.mod, r.kind)) = (g.lookup n).map (fun r => (r.name, r.mod, r.kind)) ∨
    (n = "SKIP" ∧ g.lookup "SKIP" = none ∧
      (g'.lookup n).map (fun r => (r.name, r.mod, r.kind)) = some ("SKIP", SILENT + ATOMIC, .grammar)) := by
  unfold Opt.optimize at h
  simp only [Option.map_eq_some_iff] at h
  obtain ⟨rs, hfold, rfl⟩ := h
  have := fold_sig3 passes _ rs hfold n
  unfold sig3 at this
  rw [this]
  exact optSkip_sig3 g n

theorem optimize_keeps_kind_ne {g g' : Grammar} {passes : List Opt.Pass} (h : Opt.optimize g passes = some g')
    (n : String) (hn : n ≠ "SKIP") :
    (g'.lookup n).map (fun r => (r.name, r.mod, r.kind)) = (g.lookup n).map (fun r => (r.name, r.mod, r.kind)) := by
  rcases optimize_keeps_kind h n with h1 | ⟨h1, _⟩
  · exact h1
  · exact absurd h1 hn

/-! ### (b) `callable` and `GenShape` -/

theorem callable_of_sig3 {g g' : Grammar} {n : String}
    (h : (g'.lookup n).map (fun r => (r.name, r.mod, r.kind)) = (g.lookup n).map (fun r => (r.name, r.mod, r.kind))) :
    C07.callable g' n = C07.callable g n := by
  unfold C07.callable
  cases h1 : g.lookup n <;> cases h2 : g'.lookup n <;> rw [h1, h2] at h <;> simp at h
  · obtain ⟨e1, _, e3⟩ := h
    simp only [e1, e3]

/-- **(b1)** a rule with a generated function keeps it (no hypothesis) -/
theorem optimizer_keeps_callable {g g' : Grammar} {passes : List Opt.Pass}
    (h : Opt.optimize g passes = some g') (n : String) (hc : C07.callable g n = true) :
    C07.callable g' n = true := by
  rcases optimize_keeps_kind h n with h1 | ⟨rfl, hns, _⟩
  · rw [callable_of_sig3 h1]; exact hc
  · unfold C07.callable at hc; rw [hns] at hc; cases hc

/-- the rule `SKIP` of the optimized table, old or new, has a generated function if the old one had -/
theorem callable_defined {g g' : Grammar} {passes : List Opt.Pass}
    (h : Opt.optimize g passes = some g') (n : String)
    (hold : (g.lookup n).isSome = true → C07.callable g n = true)
    (hd : (g'.lookup n).isSome = true) : C07.callable g' n = true := by
  rcases optimize_keeps_kind h n with h1 | ⟨rfl, hns, h1⟩
  · rw [callable_of_sig3 h1]
    apply hold
    cases h2 : g.lookup n with
    | some _ => rfl
    | none => rw [h2] at h1; cases h3 : g'.lookup n <;> rw [h3] at h1 hd <;> simp at h1 hd
  · unfold C07.callable
    cases h3 : g'.lookup "SKIP" with
    | none => rw [h3] at hd; cases hd
    | some r =>
      rw [h3] at h1
      simp only [Option.map_some, Option.some.injEq, Prod.mk.injEq] at h1
      simp [h1.2.2]

mutual
/-- `shapeOk` only reads `callable` -/
theorem shapeOk_mono {g g' : Grammar} (hc : ∀ n, C07.callable g n = true → C07.callable g' n = true) :
    ∀ (e : Expr), C07.shapeOk g e = true → C07.shapeOk g' e = true
  | .ident n t, h => by simp only [C07.shapeOk] at h ⊢; exact hc n h
  | .rule n m sm b, h => by
    simp only [C07.shapeOk, Bool.and_eq_true] at h ⊢; exact ⟨h.1, shapeOk_mono hc b h.2⟩
  | .seq es, h => by simp only [C07.shapeOk] at h ⊢; exact shapeOkL_mono hc es h
  | .choice es, h => by simp only [C07.shapeOk] at h ⊢; exact shapeOkL_mono hc es h
  | .opt e, h => by simp only [C07.shapeOk] at h ⊢; exact shapeOk_mono hc e h
  | .rep e, h => by simp only [C07.shapeOk] at h ⊢; exact shapeOk_mono hc e h
  | .rep1 e, h => by simp only [C07.shapeOk] at h ⊢; exact shapeOk_mono hc e h
  | .repExact e n, h => by simp only [C07.shapeOk] at h ⊢; exact shapeOk_mono hc e h
  | .repMin e n, h => by simp only [C07.shapeOk] at h ⊢; exact shapeOk_mono hc e h
  | .repMax e n, h => by simp only [C07.shapeOk] at h ⊢; exact shapeOk_mono hc e h
  | .repMinMax e m n, h => by simp only [C07.shapeOk] at h ⊢; exact shapeOk_mono hc e h
  | .andP e, h => by simp only [C07.shapeOk] at h ⊢; exact shapeOk_mono hc e h
  | .notP e, h => by simp only [C07.shapeOk] at h ⊢; exact shapeOk_mono hc e h
  | .group e t, h => by simp only [C07.shapeOk] at h ⊢; exact shapeOk_mono hc e h
  | .push e, h => by simp only [C07.shapeOk] at h ⊢; exact shapeOk_mono hc e h
  | .str _, _ => by simp only [C07.shapeOk]
  | .ci _, _ => by simp only [C07.shapeOk]
  | .range _ _, _ => by simp only [C07.shapeOk]
  | .pushLit _, _ => by simp only [C07.shapeOk]
  | .peek, _ => by simp only [C07.shapeOk]
  | .pop, _ => by simp only [C07.shapeOk]
  | .drop, _ => by simp only [C07.shapeOk]
  | .peekAll, _ => by simp only [C07.shapeOk]
  | .popAll, _ => by simp only [C07.shapeOk]
  | .peekSlice _ _, _ => by simp only [C07.shapeOk]
  | .anyB, _ => by simp only [C07.shapeOk]
  | .soiB, _ => by simp only [C07.shapeOk]
  | .eoiB, _ => by simp only [C07.shapeOk]
  | .uprop _, _ => by simp only [C07.shapeOk]
  | .skipUntil _, _ => by simp only [C07.shapeOk]
  | .optChoice _ _, _ => by simp only [C07.shapeOk]
theorem shapeOkL_mono {g g' : Grammar} (hc : ∀ n, C07.callable g n = true → C07.callable g' n = true) :
    ∀ (es : List Expr), C07.shapeOkL g es = true → C07.shapeOkL g' es = true
  | [], _ => rfl
  | e :: es, h => by
    simp only [C07.shapeOkL, Bool.and_eq_true] at h ⊢
    exact ⟨shapeOk_mono hc e h.1, shapeOkL_mono hc es h.2⟩
end

theorem shapeOkL_index (g : Grammar) (es : List Expr) :
    C07.shapeOkL g es = true ↔ ∀ i (h : i < es.length), C07.shapeOk g es[i] = true := by
  rw [C07.shapeOkL_iff]
  constructor
  · intro h i hi; exact h _ (List.getElem_mem hi)
  · intro h e he
    obtain ⟨i, hi, rfl⟩ := List.getElem_of_mem he
    exact h i hi

theorem shapeOkL_replicate {g : Grammar} {e : Expr} (h : C07.shapeOk g e = true) (n : Nat) :
    C07.shapeOkL g (List.replicate n e) = true := by
  rw [C07.shapeOkL_iff]
  intro x hx
  rw [List.eq_of_mem_replicate hx]; exact h

theorem shapeOkL_append {g : Grammar} {l1 l2 : List Expr} (h1 : C07.shapeOkL g l1 = true)
    (h2 : C07.shapeOkL g l2 = true) : C07.shapeOkL g (l1 ++ l2) = true := by
  rw [C07.shapeOkL_iff] at h1 h2 ⊢
  intro x hx
  rcases List.mem_append.1 hx with h | h
  · exact h1 x h
  · exact h2 x h

/-- every rewrite keeps the shapes the generator handles (relative to a fixed table `g`) -/
theorem shape_kept (F : Feat) (g : Grammar) : Kept F (fun e => C07.shapeOk g e = true) := by
  intro G a e e' h hG
  induction h with
  | term _ => exact id
  | ident => exact id
  | rule => exact id
  | ruleC _ _ ih =>
    intro h; simp only [C07.shapeOk, Bool.and_eq_true] at h ⊢; exact ⟨h.1, ih h.2⟩
  | @seq es es' hl hh ih =>
    intro h
    simp only [C07.shapeOk, shapeOkL_index] at h ⊢
    exact fun i hi => ih i (by omega) hi (h i (by omega))
  | @choice es es' hl hh ih =>
    intro h
    simp only [C07.shapeOk, shapeOkL_index] at h ⊢
    exact fun i hi => ih i (by omega) hi (h i (by omega))
  | opt _ ih => intro h; simp only [C07.shapeOk] at h ⊢; exact ih h
  | rep _ ih => intro h; simp only [C07.shapeOk] at h ⊢; exact ih h
  | rep1 _ ih => intro h; simp only [C07.shapeOk] at h ⊢; exact ih h
  | repExact _ ih => intro h; simp only [C07.shapeOk] at h ⊢; exact ih h
  | repMin _ ih => intro h; simp only [C07.shapeOk] at h ⊢; exact ih h
  | repMax _ ih => intro h; simp only [C07.shapeOk] at h ⊢; exact ih h
  | repMinMax _ ih => intro h; simp only [C07.shapeOk] at h ⊢; exact ih h
  | andP _ ih => intro h; simp only [C07.shapeOk] at h ⊢; exact ih h
  | notP _ ih => intro h; simp only [C07.shapeOk] at h ⊢; exact ih h
  | group _ ih => intro h; simp only [C07.shapeOk] at h ⊢; exact ih h
  | push _ ih => intro h; simp only [C07.shapeOk] at h ⊢; exact ih h
  | unroll1 _ ih =>
    intro h; simp only [C07.shapeOk] at h
    simp [C07.shapeOk, C07.shapeOkL, ih h]
  | unroll1g _ ih =>
    intro h; simp only [C07.shapeOk] at h
    have := ih h
    simp only [C07.shapeOk] at this
    simp [C07.shapeOk, C07.shapeOkL, this]
  | unrollExact _ ih =>
    intro h; simp only [C07.shapeOk] at h ⊢
    exact shapeOkL_replicate (ih h) _
  | unrollMin _ ih =>
    intro h; simp only [C07.shapeOk] at h ⊢
    exact shapeOkL_append (shapeOkL_replicate (ih h) _) (by simp [C07.shapeOkL, C07.shapeOk, ih h])
  | unrollMax _ ih =>
    intro h; simp only [C07.shapeOk] at h ⊢
    exact shapeOkL_replicate (by simp [C07.shapeOk, ih h]) _
  | unrollMinMax _ ih =>
    intro h; simp only [C07.shapeOk] at h ⊢
    exact shapeOkL_append (shapeOkL_replicate (ih h) _) (shapeOkL_replicate (by simp [C07.shapeOk, ih h]) _)
  | inlB _ _ _ ih => intro h; simp only [C07.shapeOk, Bool.and_eq_true] at h; exact ih h.2
  | inlS hl _ _ _ ih => intro _; exact ih (hG _ _ hl)
  | squash _ _ _ _ _ => intro _; rfl
  | skip _ _ => intro _; rfl

/-- **(b2)** the shape hypothesis of C07 on the table the generator is given follows from the one
    on the original grammar -/
theorem optimizer_keeps_genShape {g g' : Grammar} (hwf : WF g) {passes : List Opt.Pass}
    (hp : ∀ p ∈ passes, p ∈ Opt.defaultPasses) (h : Opt.optimize g passes = some g')
    (hg : C07.GenShape g) : C07.GenShape g' := by
  have hall := (optimize_sound hwf passes hp (shape_kept Fall g)
    (fun e he => by simpa [C07.shapeOk] using he) (fun _ => rfl) hg.bodies h).2.2
  refine ⟨fun r hr => shapeOk_mono (fun n => optimizer_keeps_callable h n) _ (hall r hr), ?_⟩
  intro n hn hd
  exact callable_defined h n (hg.trivia n hn) hd

/-! ### (c) tags -/

/-- the tag written on the node, if any, satisfies `T` -/
def tagNode (T : String → Prop) : Expr → Prop
  | .ident _ (some t) => T t
  | .group _ (some t) => T t
  | _ => True

mutual
/-- a set of expressions closed under `children()` consists of trees all of whose nodes are in it -/
theorem allN_of_closed {S Q : Expr → Prop} (hS : ∀ x, S x → ∀ c ∈ Opt.children x, S c)
    (hQ : ∀ x, S x → Q x) : ∀ (e : Expr), S e → AllN Q e
  | .rule n m sm b, h => ⟨hQ _ h, allN_of_closed hS hQ b (hS _ h b (by simp [Opt.children]))⟩
  | .opt e, h => ⟨hQ _ h, allN_of_closed hS hQ e (hS _ h e (by simp [Opt.children]))⟩
  | .rep e, h => ⟨hQ _ h, allN_of_closed hS hQ e (hS _ h e (by simp [Opt.children]))⟩
  | .rep1 e, h => ⟨hQ _ h, allN_of_closed hS hQ e (hS _ h e (by simp [Opt.children]))⟩
  | .repExact e n, h => ⟨hQ _ h, allN_of_closed hS hQ e (hS _ h e (by simp [Opt.children]))⟩
  | .repMin e n, h => ⟨hQ _ h, allN_of_closed hS hQ e (hS _ h e (by simp [Opt.children]))⟩
  | .repMax e n, h => ⟨hQ _ h, allN_of_closed hS hQ e (hS _ h e (by simp [Opt.children]))⟩
  | .repMinMax e m n, h => ⟨hQ _ h, allN_of_closed hS hQ e (hS _ h e (by simp [Opt.children]))⟩
  | .andP e, h => ⟨hQ _ h, allN_of_closed hS hQ e (hS _ h e (by simp [Opt.children]))⟩
  | .notP e, h => ⟨hQ _ h, allN_of_closed hS hQ e (hS _ h e (by simp [Opt.children]))⟩
  | .group e t, h => ⟨hQ _ h, allN_of_closed hS hQ e (hS _ h e (by simp [Opt.children]))⟩
  | .push e, h => ⟨hQ _ h, allN_of_closed hS hQ e (hS _ h e (by simp [Opt.children]))⟩
  | .seq es, h => ⟨hQ _ h, allNL_of_closed hS hQ es (fun c hc => hS _ h c (by simpa [Opt.children] using hc))⟩
  | .choice es, h => ⟨hQ _ h, allNL_of_closed hS hQ es (fun c hc => hS _ h c (by simpa [Opt.children] using hc))⟩
  | .ident n t, h => hQ _ h
  | .str _, h => hQ _ h
  | .ci _, h => hQ _ h
  | .range _ _, h => hQ _ h
  | .pushLit _, h => hQ _ h
  | .peek, h => hQ _ h
  | .pop, h => hQ _ h
  | .drop, h => hQ _ h
  | .peekAll, h => hQ _ h
  | .popAll, h => hQ _ h
  | .peekSlice _ _, h => hQ _ h
  | .anyB, h => hQ _ h
  | .soiB, h => hQ _ h
  | .eoiB, h => hQ _ h
  | .uprop _, h => hQ _ h
  | .skipUntil _, h => hQ _ h
  | .optChoice _ _, h => hQ _ h
theorem allNL_of_closed {S Q : Expr → Prop} (hS : ∀ x, S x → ∀ c ∈ Opt.children x, S c)
    (hQ : ∀ x, S x → Q x) : ∀ (es : List Expr), (∀ c ∈ es, S c) → AllNL Q es
  | [], _ => trivial
  | e :: es, h => ⟨allN_of_closed hS hQ e (h e List.mem_cons_self),
      allNL_of_closed hS hQ es (fun c hc => h c (List.mem_cons_of_mem _ hc))⟩
end

theorem reach_children {g : Grammar} {e0 x : Expr} (h : Reach g e0 x) : ∀ c ∈ Opt.children x, Reach g e0 c := by
  intro c hc
  cases x <;> simp only [Opt.children, List.mem_singleton, List.not_mem_nil] at hc
  case rule => subst hc; exact .rule h
  case seq => exact .seq h hc
  case choice => exact .choice h hc
  case opt => subst hc; exact .opt h
  case rep => subst hc; exact .rep h
  case rep1 => subst hc; exact .rep1 h
  case repExact => subst hc; exact .repExact h
  case repMin => subst hc; exact .repMin h
  case repMax => subst hc; exact .repMax h
  case repMinMax => subst hc; exact .repMinMax h
  case andP => subst hc; exact .andP h
  case notP => subst hc; exact .notP h
  case group => subst hc; exact .group h
  case push => subst hc; exact .push h

/-- every tag written in a rule body of `g` is a `GTagOK g` tag -/
theorem bodies_tagNode (g : Grammar) : ∀ r ∈ g.rules, AllN (tagNode (C06.GTagOK g)) r.body := by
  intro r hr
  refine allN_of_closed (S := Reach g (.seq [])) (fun x hx => reach_children hx) (fun x hx => ?_) r.body (.body hr)
  cases x with
  | ident n t =>
    cases t with
    | none => trivial
    | some t => exact Or.inl ⟨n, hx⟩
  | group e t =>
    cases t with
    | none => trivial
    | some t => exact Or.inr ⟨e, hx⟩
  | _ => trivial

/-- a property of all nodes of all rule bodies holds of every syntactic sub-expression -/
theorem allN_sub {g : Grammar} {P : Expr → Prop} (hb : ∀ r ∈ g.rules, AllN P r.body)
    (h0 : P (.seq [])) {x : Expr} (hx : Sub g (.seq []) x) : AllN P x := by
  induction hx with
  | root => exact ⟨h0, trivial⟩
  | body hr => exact hb _ hr
  | seq _ hm ih => exact AllNL.mem ih.2 _ hm
  | choice _ hm ih => exact AllNL.mem ih.2 _ hm
  | opt _ ih => exact ih.2
  | rep _ ih => exact ih.2
  | rep1 _ ih => exact ih.2
  | repExact _ ih => exact ih.2
  | repMin _ ih => exact ih.2
  | repMax _ ih => exact ih.2
  | repMinMax _ ih => exact ih.2
  | andP _ ih => exact ih.2
  | notP _ ih => exact ih.2
  | group _ ih => exact ih.2
  | push _ ih => exact ih.2
  | rule _ ih => exact ih.2

/-- no rewrite writes a tag: `inline_silent_rules` only replaces untagged references, `unroll`
    peels untagged groups only, the other passes copy sub-trees or make tag-less leaves -/
theorem tag_kept (F : Feat) (T : String → Prop) : Kept F (AllN (tagNode T)) := by
  intro G a e e' h hG
  induction h with
  | term _ => exact id
  | ident => exact id
  | rule => exact id
  | ruleC _ _ ih => intro h; exact ⟨trivial, ih h.2⟩
  | @seq es es' hl hh ih => intro h; exact ⟨trivial, AllNL.transfer hl h.2 ih⟩
  | @choice es es' hl hh ih => intro h; exact ⟨trivial, AllNL.transfer hl h.2 ih⟩
  | opt _ ih => intro h; exact ⟨trivial, ih h.2⟩
  | rep _ ih => intro h; exact ⟨trivial, ih h.2⟩
  | rep1 _ ih => intro h; exact ⟨trivial, ih h.2⟩
  | repExact _ ih => intro h; exact ⟨trivial, ih h.2⟩
  | repMin _ ih => intro h; exact ⟨trivial, ih h.2⟩
  | repMax _ ih => intro h; exact ⟨trivial, ih h.2⟩
  | repMinMax _ ih => intro h; exact ⟨trivial, ih h.2⟩
  | andP _ ih => intro h; exact ⟨trivial, ih h.2⟩
  | notP _ ih => intro h; exact ⟨trivial, ih h.2⟩
  | @group x x' t _ ih =>
    intro h
    refine ⟨?_, ih h.2⟩
    have h1 : tagNode T (.group x t) := h.1
    cases t with
    | none => trivial
    | some t => exact h1
  | push _ ih => intro h; exact ⟨trivial, ih h.2⟩
  | unroll1 _ ih =>
    intro h
    have := ih h.2
    exact ⟨trivial, this, ⟨trivial, this⟩, trivial⟩
  | unroll1g _ ih =>
    intro h
    have := ih h.2
    exact ⟨trivial, this.2, ⟨trivial, this⟩, trivial⟩
  | unrollExact _ ih => intro h; exact ⟨trivial, AllNL.replicate (ih h.2) _⟩
  | unrollMin _ ih =>
    intro h
    have := ih h.2
    exact ⟨trivial, AllNL.append (AllNL.replicate this _) ⟨⟨trivial, this⟩, trivial⟩⟩
  | unrollMax _ ih =>
    intro h
    have := ih h.2
    exact ⟨trivial, AllNL.replicate (show AllN (tagNode T) (.opt _) from ⟨trivial, this⟩) _⟩
  | unrollMinMax _ ih =>
    intro h
    have := ih h.2
    exact ⟨trivial, AllNL.append (AllNL.replicate this _)
      (AllNL.replicate (show AllN (tagNode T) (.opt _) from ⟨trivial, this⟩) _)⟩
  | inlB _ _ _ ih => intro h; exact ih h.2
  | inlS hl _ _ _ ih => intro _; exact ih (hG _ _ hl)
  | squash _ _ _ _ _ => intro _; trivial
  | skip _ _ => intro _; trivial

/-- **(c)** every tag written in the optimized table is a tag written in the original grammar -/
theorem optimizer_keeps_tags {g g' : Grammar} (hwf : WF g) {passes : List Opt.Pass}
    (hp : ∀ p ∈ passes, p ∈ Opt.defaultPasses) (h : Opt.optimize g passes = some g')
    (t : String) (ht : C06.GTagOK g' t) : C06.GTagOK g t := by
  have hall := (optimize_sound hwf passes hp (tag_kept Fall (C06.GTagOK g))
    (fun e he => ⟨trivial, he⟩) (fun _ => trivial) (bodies_tagNode g) h).2.2
  rcases ht with ⟨nm, hr⟩ | ⟨e, hr⟩
  · exact (allN_sub hall trivial hr.ident_sub).root
  · exact (allN_sub hall trivial hr.group_sub).1

end OptS
end Pest
