/-
  Lemmas/FrontInvGlue.lean — between the concrete syntax tree (Lemmas/FrontInvCst.lean) and the
  source-level AST with its layout relation `GrammarText'` (Front/AstText2.lean):

    ctree_grammar  : c.abs = some g → c.Valid → CGrammarText c t → g.WF' ∧ GrammarText' g t
                     (what the scanner found and the parser accepted is a well-formed grammar text)
    ctree_of_act   : g.WF' → Act g.kv kvs → ∃ c, c.abs = some g ∧ c.kv = kvs
                     (the tokens the scanner emits for a grammar text are those of a C-tree above it)
    wf'_of_wf, grammarText'_of_grammarText : the relation of Front/AstTrivia.lean is included
-/
import PestModel.Lemmas.FrontInvCst
import PestModel.Lemmas.FrontParseRT
import PestModel.Lemmas.FrontTotalParse
import PestModel.Lemmas.FrontScanTrivia
import PestModel.Lemmas.FrontInvScan

namespace Pest
namespace Front
namespace IG
open PRT (pyInt_of_digits pyInt_neg_digits natDigits_val natDigits_all natDigits_ne_nil natDigits_length)

/-! ### `Act` -/

/-- a token whose value is not a spelling: neither a number nor an integer nor a character -/
def Plain (kv : KV) : Prop := kv.1 ≠ .char ∧ kv.1 ≠ .number ∧ kv.1 ≠ .integer

theorem actVal_plain {kv : KV} (hp : Plain kv) (w : Text) : ActVal kv w ↔ w = kv.2 := by
  obtain ⟨k, v⟩ := kv
  obtain ⟨h1, h2, h3⟩ := hp
  cases k <;> first | exact absurd rfl h1 | exact absurd rfl h2 | exact absurd rfl h3 | simp [ActVal]

theorem actKV_plain {kv kv' : KV} (hp : Plain kv) : ActKV kv kv' ↔ kv' = kv := by
  unfold ActKV
  rw [actVal_plain hp]
  obtain ⟨k, v⟩ := kv
  obtain ⟨k', v'⟩ := kv'
  simp

theorem act_cons_plain (kv : KV) (hp : Plain kv) {l l' : List KV} (h : Act l l') :
    Act (kv :: l) (kv :: l') := .cons ((actKV_plain hp).2 rfl) h

theorem act_refl_plain : ∀ (K : List KV), (∀ kv ∈ K, Plain kv) → Act K K
  | [], _ => .nil
  | kv :: K, h => act_cons_plain kv (h kv (by simp)) (act_refl_plain K fun x hx => h x (by simp [hx]))

theorem act_append {a a' b b' : List KV} (h1 : Act a a') (h2 : Act b b') : Act (a ++ b) (a' ++ b') := by
  induction h1 with
  | nil => simpa using h2
  | cons hk _ ih => exact .cons hk ih

theorem act_nil_inv {L : List KV} (h : Act [] L) : L = [] := by cases h; rfl

theorem act_cons_inv {kv : KV} {l L : List KV} (h : Act (kv :: l) L) :
    ∃ kv' l', L = kv' :: l' ∧ ActKV kv kv' ∧ Act l l' := by
  cases h with
  | cons hk hl => exact ⟨_, _, rfl, hk, hl⟩

theorem act_append_inv : ∀ (a : List KV) {b L : List KV}, Act (a ++ b) L →
    ∃ la lb, L = la ++ lb ∧ Act a la ∧ Act b lb
  | [], b, L, h => ⟨[], L, rfl, .nil, h⟩
  | kv :: a, b, L, h => by
    obtain ⟨kv', l', rfl, hk, hl⟩ := act_cons_inv h
    obtain ⟨la, lb, rfl, ha, hb⟩ := act_append_inv a hl
    exact ⟨kv' :: la, lb, rfl, .cons hk ha, hb⟩

theorem act_plain_inv : ∀ {K L : List KV}, (∀ kv ∈ K, Plain kv) → Act K L → L = K
  | [], _, _, h => act_nil_inv h
  | kv :: K, L, hp, h => by
    obtain ⟨kv', l', rfl, hk, hl⟩ := act_cons_inv h
    rw [(actKV_plain (hp kv (by simp))).1 hk, act_plain_inv (fun x hx => hp x (by simp [hx])) hl]

theorem plain_of_kind {k : TK} {v : Text} (h1 : k ≠ .char) (h2 : k ≠ .number) (h3 : k ≠ .integer) :
    Plain (k, v) := ⟨h1, h2, h3⟩

theorem plain_keyword (name v : Text) : Plain (keywordKind name, v) := by
  rcases PRT.keywordKind_cases name with h | h | h | h | h | h <;> rw [h] <;> simp [Plain]

theorem plain_barKV (bar : Bool) : ∀ kv ∈ barKV bar, Plain kv := by
  cases bar <;> simp [barKV, Plain]

theorem plain_opKV (bar : Bool) : Plain (opKV bar) := by
  cases bar <;> simp [opKV, Plain]

theorem plain_preKV (pre : List Bool) : ∀ kv ∈ pre.map preKV, Plain kv := by
  intro kv h
  simp only [List.mem_map] at h
  obtain ⟨b, _, rfl⟩ := h
  cases b <;> simp [preKV, Plain]

theorem plain_tagKV (tag : Option Text) : ∀ kv ∈ tagKV tag, Plain kv := by
  cases tag <;> simp [tagKV, Plain]

theorem plain_modKV (m : Option Nat) : ∀ kv ∈ modKV m, Plain kv := by
  cases m <;> simp [modKV, Plain]

theorem plain_docsKV (k : TK) (hk : k = .ruleDoc ∨ k = .grammarDoc) (m : Text) (docs : List Text) :
    ∀ kv ∈ (docs.map (docKV k m)).flatten, Plain kv := by
  intro kv h
  simp only [List.mem_flatten, List.mem_map] at h
  obtain ⟨l, ⟨d, _, rfl⟩, hkv⟩ := h
  simp only [docKV, List.mem_cons, List.not_mem_nil, or_false] at hkv
  rcases hkv with rfl | rfl
  · rcases hk with rfl | rfl <;> simp [Plain]
  · simp [Plain]

/-! ### spelling ↔ value: numbers -/

theorem isDigits_all {w : Text} (h : IsDigits w) : w.all isDigit = true :=
  List.all_eq_true.mpr h.2

theorem pyInt_long {ds : Text} (hne : ds ≠ []) (hall : ds.all isDigit = true) (hlen : 4300 < ds.length) :
    pyInt ds = some none := by
  cases ds with
  | nil => exact absurd rfl hne
  | cons d r =>
    have hd : d ≠ 45 := by
      have : isDigit d = true := by simp at hall; exact hall.1
      simp [isDigit] at this; omega
    unfold pyInt
    split
    · rename_i neg ds' heq
      split at heq
      · rename_i r' h; simp at h; exact absurd h.1 hd
      · simp at heq
        obtain ⟨rfl, rfl⟩ := heq
        simp at hlen
        simp [hall]; omega

theorem pyInt_neg_long {ds : Text} (hne : ds ≠ []) (hall : ds.all isDigit = true) (hlen : 4300 < ds.length) :
    pyInt (45 :: ds) = some none := by
  unfold pyInt
  simp only
  cases ds with
  | nil => exact absurd rfl hne
  | cons d r =>
    simp at hlen
    simp [hall]; omega

/-! #### significant digits -/

theorem digitsVal_lt : ∀ (ds : Text), (∀ c ∈ ds, isDigit c = true) → digitsVal ds < 10 ^ ds.length
  | [], _ => by simp [digitsVal]
  | d :: r, h => by
    have ih := digitsVal_lt r (fun c hc => h c (by simp [hc]))
    have hd := (isDigit_iff d).1 (h d (by simp))
    rw [PRT.digitsVal_cons, List.length_cons, Nat.pow_succ]
    have : (d - 48) * 10 ^ r.length ≤ 9 * 10 ^ r.length := Nat.mul_le_mul_right _ (by omega)
    omega

theorem digitsVal_ge {d : Nat} (r : Text) (hd : 49 ≤ d) : 10 ^ r.length ≤ digitsVal (d :: r) := by
  rw [PRT.digitsVal_cons]
  have : 1 * 10 ^ r.length ≤ (d - 48) * 10 ^ r.length := Nat.mul_le_mul_right _ (by omega)
  omega

theorem natDigits_length_le {n k : Nat} (hk : 0 < k) (h : n < 10 ^ k) : (natDigits n).length ≤ k := by
  have := (PRT.natDigitsAux_spec (n + 1) n [] (by omega) (by simp)).2.2.2.2 k hk h
  simpa [natDigits] using this

/-- a numeral without superfluous zeros has as many digits as the printed value -/
theorem natDigits_length_canonical {ds : Text} (h : Canonical ds) :
    (natDigits (digitsVal ds)).length = ds.length := by
  rcases h with rfl | ⟨d, r, rfl, h1, h2, hr⟩
  · rfl
  · have hall : ∀ c ∈ d :: r, isDigit c = true := by
      intro c hc
      simp only [List.mem_cons] at hc
      rcases hc with rfl | hc
      · exact (isDigit_iff c).2 ⟨by omega, h2⟩
      · exact hr c hc
    have hlt := digitsVal_lt (d :: r) hall
    have hge := digitsVal_ge r h1
    have hle := natDigits_length_le (k := (d :: r).length) (by simp) hlt
    have hval := digitsVal_lt (natDigits (digitsVal (d :: r))) (PRT.natDigits_digits _)
    rw [natDigits_val] at hval
    simp only [List.length_cons] at hle ⊢
    by_cases hL : (natDigits (digitsVal (d :: r))).length ≤ r.length
    · have := Nat.pow_le_pow_right (n := 10) (by decide) hL
      omega
    · omega

/-- the number of significant digits of a digit string is that of its printed value -/
theorem sig_length {w : Text} (h : ∀ c ∈ w, isDigit c = true) :
    (stripZeros w).length = (natDigits (digitsVal w)).length := by
  rw [← digitsVal_stripZeros w, natDigits_length_canonical (stripZeros_canonical h)]

theorem pyInt_stripZeros {w : Text} (h : ∀ c ∈ w, isDigit c = true)
    (hl : (natDigits (digitsVal w)).length ≤ 4300) :
    pyInt (stripZeros w) = some (some (digitsVal w : Int)) := by
  rw [pyInt_of_digits (stripZeros_ne_nil w) (List.all_eq_true.mpr (stripZeros_all h))
    (by rw [sig_length h]; exact hl), digitsVal_stripZeros]

theorem pyInt_neg_stripZeros {w : Text} (h : ∀ c ∈ w, isDigit c = true)
    (hl : (natDigits (digitsVal w)).length ≤ 4300) :
    pyInt (45 :: stripZeros w) = some (some (-(digitsVal w : Int))) := by
  rw [pyInt_neg_digits (stripZeros_ne_nil w) (List.all_eq_true.mpr (stripZeros_all h))
    (by rw [sig_length h]; exact hl), digitsVal_stripZeros]

/-! #### repetition bounds -/

theorem numSpell_of_absNum {w : Text} {n : Nat} (h : absNum w = some n) (hw : IsDigits w) :
    n ≤ 4294967295 ∧ NumSpell n w := by
  unfold absNum at h
  by_cases hl : (stripZeros w).length > 10
  · rw [if_pos hl] at h; cases h
  · rw [if_neg hl] at h
    rw [pyInt_stripZeros hw.2 (by rw [← sig_length hw.2]; omega)] at h
    simp only at h
    split at h
    · cases h
    · rename_i hle
      cases h
      simp only [MAX_REPEAT, Int.not_lt] at hle
      refine ⟨by simpa using (by omega : (digitsVal w : Int).toNat ≤ 4294967295), hw.1, isDigits_all hw, ?_⟩
      simp

theorem absNum_of_numSpell {w : Text} {n : Nat} (h : NumSpell n w) (hn : n ≤ 4294967295) :
    absNum w = some n := by
  obtain ⟨h1, h2, rfl⟩ := h
  have hall : ∀ c ∈ w, isDigit c = true := List.all_eq_true.mp h2
  have hlen := natDigits_length hn
  unfold absNum
  rw [if_neg (by rw [sig_length hall]; omega), pyInt_stripZeros hall (by omega)]
  have : ¬ ((digitsVal w : Int) > MAX_REPEAT) := by simp only [MAX_REPEAT]; omega
  simp only [if_neg this]
  simp

/-! #### slice indices -/

theorem intSpell_of_absInt {w : Text} {i : Int} (h : absInt w = some i) (hw : IsIntTok w) :
    IntSpell i w ∧ SliceIdxOK (some i) := by
  unfold absInt at h
  rcases hw with hw | ⟨zs, d, ds, rfl, hz, hd1, hd2, hds⟩
  · rw [intLiteral_pos (head_ne_minus_of_digits hw.2)] at h
    by_cases hlen : (natDigits (digitsVal w)).length ≤ 4300
    · rw [pyInt_stripZeros hw.2 hlen] at h
      cases h
      exact ⟨.nonneg ⟨hw.1, isDigits_all hw, rfl⟩, by simpa [SliceIdxOK] using hlen⟩
    · rw [pyInt_long (stripZeros_ne_nil w) (List.all_eq_true.mpr (stripZeros_all hw.2))
        (by rw [sig_length hw.2]; omega)] at h
      cases h
  · have hall : ∀ c ∈ zs ++ d :: ds, isDigit c = true := by
      intro c hc
      simp only [List.mem_append, List.mem_cons] at hc
      rcases hc with hc | rfl | hc
      · rw [hz c hc]; decide
      · exact (isDigit_iff c).2 ⟨by omega, hd2⟩
      · exact hds c hc
    have hne : zs ++ d :: ds ≠ [] := by simp
    rw [intLiteral_neg] at h
    by_cases hlen : (natDigits (digitsVal (zs ++ d :: ds))).length ≤ 4300
    · rw [pyInt_neg_stripZeros hall hlen] at h
      cases h
      refine ⟨.neg hz hd1 hd2 ⟨hne, List.all_eq_true.mpr hall, rfl⟩, ?_⟩
      simpa [SliceIdxOK] using hlen
    · rw [pyInt_neg_long (stripZeros_ne_nil _) (List.all_eq_true.mpr (stripZeros_all hall))
        (by rw [sig_length hall]; omega)] at h
      cases h

theorem absInt_of_intSpell {w : Text} {i : Int} (h : IntSpell i w) (hi : SliceIdxOK (some i)) :
    absInt w = some i := by
  unfold absInt
  cases h with
  | nonneg hn =>
    obtain ⟨h1, h2, rfl⟩ := hn
    have hall : ∀ c ∈ w, isDigit c = true := List.all_eq_true.mp h2
    rw [intLiteral_pos (head_ne_minus_of_digits hall), pyInt_stripZeros hall (by simpa [SliceIdxOK] using hi)]
  | neg hz hd1 hd2 hn =>
    obtain ⟨h1, h2, rfl⟩ := hn
    have hall := List.all_eq_true.mp h2
    rw [intLiteral_neg, pyInt_neg_stripZeros hall (by simpa [SliceIdxOK] using hi)]

/-! ### spelling ↔ value: character literals -/

theorem unescape_esc_inv {e : Text} {a : Nat} (he : Unescape.escapeLen e = some e.length)
    (h : Unescape.unescape (92 :: e) = .ok [a]) : Unescape.Escape e a := by
  obtain ⟨ov, hsp⟩ := Unescape.specEscape_of_escapeLen he
  have hs := Unescape.spec_of_unescape h
  cases ov with
  | none => rw [Unescape.specUnescape_esc_range hsp] at hs; cases hs
  | some cp =>
    rw [Unescape.specUnescape_esc_some hsp, List.drop_length, Unescape.specUnescape_nil] at hs
    simp only [Option.map_some, Option.some.injEq, List.cons.injEq, and_true] at hs
    subst hs
    obtain ⟨e', rest, he', hl, hesc⟩ := Unescape.escape_of_specEscape hsp
    have : e' = e := by
      have h1 : e' = e.take e'.length := by rw [he']; simp
      rw [h1, hl, List.take_length]
    subst this
    exact hesc

theorem charSpell_of_absChar {w : Text} {a : Nat} (h : absChar w = some a) (hw : IsCharLit w) :
    CharSpell a w := by
  obtain ⟨body, rfl, hb⟩ := hw
  unfold absChar at h
  rw [stripQuotes_lit] at h
  rcases hb with ⟨c, rfl, hc⟩ | ⟨e, rfl, he⟩
  · rw [Unescape.unescape_cons_char [] hc, Unescape.unescape_nil] at h
    simp only [Unescape.Res.prepend, List.append_nil] at h
    cases h
    exact .raw _ hc
  · cases hu : Unescape.unescape (92 :: e) with
    | ok v =>
      rw [hu] at h
      match v, h, hu with
      | [x], h, hu =>
        cases h
        exact .esc (unescape_esc_inv he hu)
    | error er => rw [hu] at h; cases h
    | exc nm => rw [hu] at h; cases h

theorem unescape_of_escape {e : Text} {a : Nat} (h : Unescape.Escape e a) :
    Unescape.unescape (92 :: e) = .ok [a] := by
  apply Unescape.unescape_of_spec
  have hsp := Unescape.specEscape_of_escape h
  rw [Unescape.specUnescape_esc_some hsp, List.drop_length, Unescape.specUnescape_nil]
  rfl

theorem absChar_of_charSpell {w : Text} {a : Nat} (h : CharSpell a w) : absChar w = some a := by
  cases h with
  | raw _ hc =>
    have : stripQuotes [39, a, 39] = [a] := by simp [stripQuotes]
    unfold absChar
    rw [this, Unescape.unescape_cons_char [] hc, Unescape.unescape_nil]
    rfl
  | @esc e v he =>
    unfold absChar
    have : stripQuotes (39 :: 92 :: (e ++ [39])) = 92 :: e := stripQuotes_lit (92 :: e)
    rw [this, unescape_of_escape he]

/-! ### the canonical spellings are injective -/

theorem natDigits_inj {m n : Nat} (h : natDigits m = natDigits n) : m = n := by
  rw [← natDigits_val m, ← natDigits_val n, h]

theorem charLit_inj {a b : Nat} (h : charLit a = charLit b) : a = b := by
  unfold charLit at h
  by_cases ha : a = 92 <;> by_cases hb : b = 92 <;> simp [ha, hb] at h
  · rw [ha, hb]
  · exact h

theorem natDigits_head_digit (n : Nat) : ∃ d r, natDigits n = d :: r ∧ isDigit d = true := by
  cases h : natDigits n with
  | nil => exact absurd h (natDigits_ne_nil n)
  | cons d r =>
    refine ⟨d, r, rfl, ?_⟩
    have := natDigits_all n
    rw [h] at this
    simp at this
    exact this.1

theorem intDigits_inj {i j : Int} (h : intDigits i = intDigits j) : i = j := by
  unfold intDigits at h
  by_cases hi : i < 0 <;> by_cases hj : j < 0 <;> simp only [hi, hj, if_true, if_false] at h
  · have := natDigits_inj (List.cons.inj h).2
    omega
  · obtain ⟨d, r, hd, hdig⟩ := natDigits_head_digit j.toNat
    rw [hd] at h
    have : d = 45 := (List.cons.inj h).1.symm
    subst this
    simp [isDigit] at hdig
  · obtain ⟨d, r, hd, hdig⟩ := natDigits_head_digit i.toNat
    rw [hd] at h
    have : d = 45 := (List.cons.inj h).1
    subst this
    simp [isDigit] at hdig
  · have := natDigits_inj h
    omega

/-! ### single tokens -/

theorem actKV_number {n : Nat} {w : Text} (h : NumSpell n w) : ActKV (.number, natDigits n) (.number, w) :=
  ⟨rfl, n, rfl, h⟩

theorem actKV_integer {i : Int} {w : Text} (h : IntSpell i w) : ActKV (.integer, intDigits i) (.integer, w) :=
  ⟨rfl, i, rfl, h⟩

theorem actKV_char {a : Nat} {w : Text} (h : CharSpell a w) : ActKV (.char, charLit a) (.char, w) :=
  ⟨rfl, a, rfl, h⟩

theorem actKV_number_inv {n : Nat} {kv' : KV} (h : ActKV (.number, natDigits n) kv') :
    ∃ w, kv' = (.number, w) ∧ NumSpell n w := by
  obtain ⟨k', w⟩ := kv'
  obtain ⟨hk, m, hm, hs⟩ := h
  simp only at hk
  subst hk
  rw [natDigits_inj hm]
  exact ⟨w, rfl, hs⟩

theorem actKV_integer_inv {i : Int} {kv' : KV} (h : ActKV (.integer, intDigits i) kv') :
    ∃ w, kv' = (.integer, w) ∧ IntSpell i w := by
  obtain ⟨k', w⟩ := kv'
  obtain ⟨hk, m, hm, hs⟩ := h
  simp only at hk
  subst hk
  rw [intDigits_inj hm]
  exact ⟨w, rfl, hs⟩

theorem actKV_char_inv {a : Nat} {kv' : KV} (h : ActKV (.char, charLit a) kv') :
    ∃ w, kv' = (.char, w) ∧ CharSpell a w := by
  obtain ⟨k', w⟩ := kv'
  obtain ⟨hk, m, hm, hs⟩ := h
  simp only at hk
  subst hk
  rw [charLit_inj hm]
  exact ⟨w, rfl, hs⟩

theorem spells_of_spellsA {kv kv' : KV} {w : Text} (ha : ActKV kv kv') (hs : SpellsA kv' w) :
    Spells kv w := by
  obtain ⟨k, v⟩ := kv
  obtain ⟨k', v'⟩ := kv'
  obtain ⟨hk, hv⟩ := ha
  simp only at hk hv
  subst hk
  cases k' <;> simp only [ActVal, SpellsA, Spells] at hv hs ⊢ <;>
    first | (subst hv; exact hs) | (subst hs; exact hv)

theorem sc'_of_scA : ∀ {K K' : List KV} {t tl : Text}, Act K K' → ScA K' t tl → Sc' K t tl := by
  intro K K' t tl ha hs
  induction hs generalizing K with
  | nil tl => cases ha; exact .nil tl
  | cons kv' hsp hw _ ih =>
    cases ha with
    | cons hk hl => exact .cons _ (spells_of_spellsA hk hsp) hw (ih hl)

/-! ### from the C-tree to the AST (reject half) -/

theorem post_g1 {p : CPost} {q : Post} (h : p.abs = some q) (hv : p.Valid) :
    WFPost q ∧ Act (postKV q) p.kv := by
  unfold CPost.abs at h
  split at h
  · cases h; exact ⟨trivial, act_refl_plain _ (by simp [postKV, Plain])⟩
  · cases h; exact ⟨trivial, act_refl_plain _ (by simp [postKV, Plain])⟩
  · cases h; exact ⟨trivial, act_refl_plain _ (by simp [postKV, Plain])⟩
  · rename_i a
    cases ha : absNum a with
    | none => rw [ha] at h; cases h
    | some n =>
      rw [ha] at h; cases h
      obtain ⟨hn, hs⟩ := numSpell_of_absNum ha (hv a (by simp))
      exact ⟨hn, act_cons_plain _ (by simp [Plain]) (.cons (actKV_number hs)
        (act_cons_plain _ (by simp [Plain]) .nil))⟩
  · rename_i a
    cases ha : absNum a with
    | none => rw [ha] at h; cases h
    | some n =>
      rw [ha] at h; cases h
      obtain ⟨hn, hs⟩ := numSpell_of_absNum ha (hv a (by simp))
      exact ⟨hn, act_cons_plain _ (by simp [Plain]) (.cons (actKV_number hs)
        (act_cons_plain _ (by simp [Plain]) (act_cons_plain _ (by simp [Plain]) .nil)))⟩
  · rename_i a
    cases ha : absNum a with
    | none => rw [ha] at h; cases h
    | some n =>
      rw [ha] at h; cases h
      obtain ⟨hn, hs⟩ := numSpell_of_absNum ha (hv a (by simp))
      exact ⟨hn, act_cons_plain _ (by simp [Plain]) (act_cons_plain _ (by simp [Plain])
        (.cons (actKV_number hs) (act_cons_plain _ (by simp [Plain]) .nil)))⟩
  · rename_i a b
    cases ha : absNum a with
    | none => rw [ha] at h; cases h
    | some m =>
      cases hb : absNum b with
      | none => rw [ha, hb] at h; cases h
      | some n =>
        rw [ha, hb] at h; cases h
        obtain ⟨hm, hsa⟩ := numSpell_of_absNum ha (hv a (by simp))
        obtain ⟨hn, hsb⟩ := numSpell_of_absNum hb (hv b (by simp))
        exact ⟨⟨hm, hn⟩, act_cons_plain _ (by simp [Plain]) (.cons (actKV_number hsa)
          (act_cons_plain _ (by simp [Plain]) (.cons (actKV_number hsb)
            (act_cons_plain _ (by simp [Plain]) .nil))))⟩
  · cases h

theorem posts_g1 : ∀ {ps : List CPost} {qs : List Post}, absPosts ps = some qs → (∀ p ∈ ps, p.Valid) →
    (∀ q ∈ qs, WFPost q) ∧ Act (qs.map postKV).flatten (ps.map CPost.kv).flatten
  | [], qs, h, _ => by
    simp only [absPosts, Option.some.injEq] at h
    subst h
    exact ⟨by simp, .nil⟩
  | p :: ps, qs, h, hv => by
    simp only [absPosts] at h
    cases hp : p.abs with
    | none => rw [hp] at h; cases h
    | some q =>
      cases hps : absPosts ps with
      | none => rw [hp, hps] at h; cases h
      | some qs' =>
        rw [hp, hps] at h
        cases h
        obtain ⟨w1, a1⟩ := post_g1 hp (hv p (by simp))
        obtain ⟨w2, a2⟩ := posts_g1 hps (fun x hx => hv x (by simp [hx]))
        refine ⟨?_, by simpa using act_append a1 a2⟩
        intro x hx
        simp only [List.mem_cons] at hx
        rcases hx with rfl | hx
        · exact w1
        · exact w2 x hx

theorem optInt_g1 {a : Option Text} {x : Option Int} (h : absOptInt a = some x)
    (hv : ∀ w, a = some w → IsIntTok w) : SliceIdxOK x ∧ Act (optIntKV x) (optKV .integer a) := by
  cases a with
  | none =>
    simp only [absOptInt, Option.some.injEq] at h
    subst h
    exact ⟨trivial, .nil⟩
  | some w =>
    simp only [absOptInt] at h
    cases hw : absInt w with
    | none => rw [hw] at h; cases h
    | some i =>
      rw [hw] at h; cases h
      obtain ⟨hs, hi⟩ := intSpell_of_absInt hw (hv w rfl)
      exact ⟨hi, .cons (actKV_integer hs) .nil⟩

mutual
theorem node_g1 : ∀ (nd : CNode) (n : SNode), nd.abs = some n → nd.Valid → n.WF' ∧ Act n.kv nd.kv
  | .str s, n, h, _ => by
    simp only [CNode.abs, Option.some.injEq] at h
    subst h
    exact ⟨by simp [SNode.WF'], act_refl_plain _ (by simp [SNode.kv, Plain])⟩
  | .ci s, n, h, _ => by
    simp only [CNode.abs, Option.some.injEq] at h
    subst h
    exact ⟨by simp [SNode.WF'], act_refl_plain _ (by simp [SNode.kv, Plain])⟩
  | .range a b, n, h, hv => by
    simp only [CNode.abs] at h
    simp only [CNode.Valid] at hv
    cases ha : absChar a with
    | none => rw [ha] at h; cases h
    | some x =>
      cases hb : absChar b with
      | none => rw [ha, hb] at h; cases h
      | some y =>
        rw [ha, hb] at h
        simp only at h
        split at h
        · cases h
        · rename_i hxy
          cases h
          refine ⟨by simp only [SNode.WF']; omega, ?_⟩
          exact .cons (actKV_char (charSpell_of_absChar ha hv.1))
            (act_cons_plain _ (by simp [Plain])
              (.cons (actKV_char (charSpell_of_absChar hb hv.2)) .nil))
  | .ident name, n, h, hv => by
    simp only [CNode.abs, Option.some.injEq] at h
    subst h
    simp only [CNode.Valid] at hv
    exact ⟨by simpa [SNode.WF'] using hv,
      act_refl_plain _ (by simp only [SNode.kv, List.mem_singleton, forall_eq]; exact plain_keyword _ _)⟩
  | .pushLit (some s), n, h, _ => by
    simp only [CNode.abs, Option.some.injEq] at h
    subst h
    exact ⟨by simp [SNode.WF'], act_refl_plain _ (by simp [SNode.kv, Plain])⟩
  | .pushLit none, n, h, _ => by simp [CNode.abs] at h
  | .push bar e, n, h, hv => by
    simp only [CNode.abs] at h
    simp only [CNode.Valid] at hv
    cases he : e.abs with
    | none => rw [he] at h; cases h
    | some e' =>
      rw [he] at h
      cases h
      obtain ⟨w, a⟩ := expr_g1 e e' he hv
      refine ⟨by simpa [SNode.WF'] using w, ?_⟩
      simp only [SNode.kv, CNode.kv]
      exact act_append (act_append (act_append (act_refl_plain _ (by simp [Plain]))
        (act_refl_plain _ (plain_barKV bar))) a) (act_refl_plain _ (by simp [Plain]))
  | .slice a b, n, h, hv => by
    simp only [CNode.abs] at h
    simp only [CNode.Valid] at hv
    cases ha : absOptInt a with
    | none => rw [ha] at h; cases h
    | some x =>
      cases hb : absOptInt b with
      | none => rw [ha, hb] at h; cases h
      | some y =>
        rw [ha, hb] at h
        cases h
        refine ⟨by simp only [SNode.WF']; exact ⟨(optInt_g1 ha hv.1).1, (optInt_g1 hb hv.2).1⟩, ?_⟩
        simp only [SNode.kv, CNode.kv]
        exact act_append (act_append (act_append (act_append (act_refl_plain _ (by simp [Plain]))
          (optInt_g1 ha hv.1).2) (act_refl_plain _ (by simp [Plain]))) (optInt_g1 hb hv.2).2)
          (act_refl_plain _ (by simp [Plain]))
  | .paren bar e, n, h, hv => by
    simp only [CNode.abs] at h
    simp only [CNode.Valid] at hv
    cases he : e.abs with
    | none => rw [he] at h; cases h
    | some e' =>
      rw [he] at h
      cases h
      obtain ⟨w, a⟩ := expr_g1 e e' he hv
      refine ⟨by simpa [SNode.WF'] using w, ?_⟩
      simp only [SNode.kv, CNode.kv]
      exact act_append (act_append (act_append (act_refl_plain _ (by simp [Plain]))
        (act_refl_plain _ (plain_barKV bar))) a) (act_refl_plain _ (by simp [Plain]))
theorem term_g1 : ∀ (ct : CTerm) (t : STerm), ct.abs = some t → ct.Valid → t.WF' ∧ Act t.kv ct.kv
  | .mk tag pre node post, t, h, hv => by
    simp only [CTerm.abs] at h
    simp only [CTerm.Valid] at hv
    cases hn : node.abs with
    | none => rw [hn] at h; cases h
    | some n =>
      cases hp : absPosts post with
      | none => rw [hn, hp] at h; cases h
      | some qs =>
        rw [hn, hp] at h
        cases h
        obtain ⟨w1, a1⟩ := node_g1 node n hn hv.2.1
        obtain ⟨w2, a2⟩ := posts_g1 hp hv.2.2
        refine ⟨by simp only [STerm.WF']; exact ⟨hv.1, w1, w2⟩, ?_⟩
        simp only [STerm.kv, CTerm.kv]
        exact act_append (act_append (act_append (act_refl_plain _ (plain_tagKV tag))
          (act_refl_plain _ (plain_preKV pre))) a1) a2
theorem expr_g1 : ∀ (ce : CExpr) (e : SExpr), ce.abs = some e → ce.Valid → e.WF' ∧ Act e.kv ce.kv
  | .one ct, e, h, hv => by
    simp only [CExpr.abs] at h
    simp only [CExpr.Valid] at hv
    cases ht : ct.abs with
    | none => rw [ht] at h; cases h
    | some t =>
      rw [ht] at h
      cases h
      obtain ⟨w, a⟩ := term_g1 ct t ht hv
      exact ⟨by simpa [SExpr.WF'] using w, by simpa [SExpr.kv, CExpr.kv] using a⟩
  | .cons ct bar rest, e, h, hv => by
    simp only [CExpr.abs] at h
    simp only [CExpr.Valid] at hv
    cases ht : ct.abs with
    | none => rw [ht] at h; cases h
    | some t =>
      cases hr : rest.abs with
      | none => rw [ht, hr] at h; cases h
      | some r' =>
        rw [ht, hr] at h
        cases h
        obtain ⟨w1, a1⟩ := term_g1 ct t ht hv.1
        obtain ⟨w2, a2⟩ := expr_g1 rest r' hr hv.2
        refine ⟨by simp only [SExpr.WF']; exact ⟨w1, w2⟩, ?_⟩
        simp only [SExpr.kv, CExpr.kv]
        exact act_append (act_append a1 (act_refl_plain _ (by
          simp only [List.mem_singleton, forall_eq]; exact plain_opKV bar))) a2
end

theorem rule_g1 {r : CRule} {r' : SRule} (h : r.abs = some r') (hv : r.Valid) :
    r'.WF' ∧ r'.docs = r.docs ∧ Act r'.headKV r.headKV := by
  unfold CRule.abs at h
  cases he : r.body.abs with
  | none => rw [he] at h; cases h
  | some e =>
    rw [he] at h
    cases h
    obtain ⟨v1, v2, v3, v4⟩ := hv
    obtain ⟨w, a⟩ := expr_g1 r.body e he v4
    refine ⟨⟨v1, v2, v3, w⟩, rfl, ?_⟩
    simp only [SRule.headKV, CRule.headKV]
    exact act_append (act_append (act_append (act_append (act_append
      (act_refl_plain _ (by simp [Plain])) (act_refl_plain _ (plain_modKV _)))
      (act_refl_plain _ (by simp [Plain]))) (act_refl_plain _ (plain_barKV _))) a)
      (act_refl_plain _ (by simp [Plain]))

theorem rules_g1 : ∀ {rs : List CRule} {rs' : List SRule}, absRules rs = some rs' → (∀ r ∈ rs, r.Valid) →
    (∀ r' ∈ rs', r'.WF') ∧ ∀ t tl, CRulesText rs t tl → RulesText' rs' t tl
  | [], rs', h, _ => by
    simp only [absRules, Option.some.injEq] at h
    subst h
    exact ⟨by simp, fun t tl ht => ht⟩
  | r :: rs, rs', h, hv => by
    simp only [absRules] at h
    cases hr : r.abs with
    | none => rw [hr] at h; cases h
    | some r' =>
      cases hrs : absRules rs with
      | none => rw [hr, hrs] at h; cases h
      | some rs'' =>
        rw [hr, hrs] at h
        cases h
        obtain ⟨w1, d1, a1⟩ := rule_g1 hr (hv r (by simp))
        obtain ⟨w2, t2⟩ := rules_g1 hrs (fun x hx => hv x (by simp [hx]))
        refine ⟨?_, ?_⟩
        · intro x hx
          simp only [List.mem_cons] at hx
          rcases hx with rfl | hx
          · exact w1
          · exact w2 x hx
        · intro t tl ⟨t1, u2, hd, hs, hrest⟩
          exact ⟨t1, u2, by rw [d1]; exact hd, sc'_of_scA a1 hs, t2 _ _ hrest⟩

/-- **from the C-tree to the grammar text.**  What the scanner found (a layout of a C-tree with
    valid lexemes) and the parser accepted (`abs` defined) is a layout of a well-formed grammar. -/
theorem ctree_grammar {c : CGrammar} {g : SGrammar} {t : Text} (h : c.abs = some g) (hv : c.Valid)
    (ht : CGrammarText c t) : g.WF' ∧ GrammarText' g t := by
  unfold CGrammar.abs at h
  cases hr : absRules c.rules with
  | none => rw [hr] at h; cases h
  | some rs =>
    rw [hr] at h
    cases h
    obtain ⟨v1, v2, v3⟩ := hv
    obtain ⟨w, tx⟩ := rules_g1 hr v2
    obtain ⟨lead, t0, t1, t2, e, hl, rfl, hg, hrs, htr, he⟩ := ht
    exact ⟨⟨v1, w, v3⟩, lead, t0, t1, t2, e, hl, rfl, hg, tx _ _ hrs, htr, he⟩

/-! ### from the AST and the emitted tokens to a C-tree (accept half) -/

theorem post_g2 {q : Post} (hq : WFPost q) {L : List KV} (h : Act (postKV q) L) :
    ∃ p : CPost, p.abs = some q ∧ p.kv = L := by
  cases q with
  | opt => exact ⟨.opt, rfl, (act_plain_inv (by simp [postKV, Plain]) h).symm⟩
  | rep => exact ⟨.rep, rfl, (act_plain_inv (by simp [postKV, Plain]) h).symm⟩
  | rep1 => exact ⟨.rep1, rfl, (act_plain_inv (by simp [postKV, Plain]) h).symm⟩
  | exact n =>
    simp only [postKV] at h
    obtain ⟨k1, l1, rfl, h1, h⟩ := act_cons_inv h
    obtain ⟨k2, l2, rfl, h2, h⟩ := act_cons_inv h
    obtain ⟨k3, l3, rfl, h3, h⟩ := act_cons_inv h
    cases act_nil_inv h
    rw [actKV_plain (by simp [Plain])] at h1 h3
    obtain ⟨w, rfl, hw⟩ := actKV_number_inv h2
    subst h1 h3
    refine ⟨.braces [some w], ?_, by simp [CPost.kv, itemKV']⟩
    simp only [CPost.abs, absNum_of_numSpell hw hq, Option.map_some]
  | min n =>
    simp only [postKV] at h
    obtain ⟨k1, l1, rfl, h1, h⟩ := act_cons_inv h
    obtain ⟨k2, l2, rfl, h2, h⟩ := act_cons_inv h
    obtain ⟨k3, l3, rfl, h3, h⟩ := act_cons_inv h
    obtain ⟨k4, l4, rfl, h4, h⟩ := act_cons_inv h
    cases act_nil_inv h
    rw [actKV_plain (by simp [Plain])] at h1 h3 h4
    obtain ⟨w, rfl, hw⟩ := actKV_number_inv h2
    subst h1 h3 h4
    refine ⟨.braces [some w, none], ?_, by simp [CPost.kv, itemKV']⟩
    simp only [CPost.abs, absNum_of_numSpell hw hq, Option.map_some]
  | max n =>
    simp only [postKV] at h
    obtain ⟨k1, l1, rfl, h1, h⟩ := act_cons_inv h
    obtain ⟨k2, l2, rfl, h2, h⟩ := act_cons_inv h
    obtain ⟨k3, l3, rfl, h3, h⟩ := act_cons_inv h
    obtain ⟨k4, l4, rfl, h4, h⟩ := act_cons_inv h
    cases act_nil_inv h
    rw [actKV_plain (by simp [Plain])] at h1 h2 h4
    obtain ⟨w, rfl, hw⟩ := actKV_number_inv h3
    subst h1 h2 h4
    refine ⟨.braces [none, some w], ?_, by simp [CPost.kv, itemKV']⟩
    simp only [CPost.abs, absNum_of_numSpell hw hq, Option.map_some]
  | minmax m n =>
    simp only [postKV] at h
    obtain ⟨k1, l1, rfl, h1, h⟩ := act_cons_inv h
    obtain ⟨k2, l2, rfl, h2, h⟩ := act_cons_inv h
    obtain ⟨k3, l3, rfl, h3, h⟩ := act_cons_inv h
    obtain ⟨k4, l4, rfl, h4, h⟩ := act_cons_inv h
    obtain ⟨k5, l5, rfl, h5, h⟩ := act_cons_inv h
    cases act_nil_inv h
    rw [actKV_plain (by simp [Plain])] at h1 h3 h5
    obtain ⟨w, rfl, hw⟩ := actKV_number_inv h2
    obtain ⟨w', rfl, hw'⟩ := actKV_number_inv h4
    subst h1 h3 h5
    refine ⟨.braces [some w, none, some w'], ?_, by simp [CPost.kv, itemKV']⟩
    simp only [CPost.abs, absNum_of_numSpell hw hq.1, absNum_of_numSpell hw' hq.2]

theorem posts_g2 : ∀ (qs : List Post), (∀ q ∈ qs, WFPost q) → ∀ {L : List KV},
    Act (qs.map postKV).flatten L → ∃ ps : List CPost, absPosts ps = some qs ∧ (ps.map CPost.kv).flatten = L
  | [], _, L, h => ⟨[], rfl, by simpa using (act_nil_inv (by simpa using h)).symm⟩
  | q :: qs, hq, L, h => by
    simp only [List.map_cons, List.flatten_cons] at h
    obtain ⟨la, lb, rfl, ha, hb⟩ := act_append_inv _ h
    obtain ⟨p, hp, rfl⟩ := post_g2 (hq q (by simp)) ha
    obtain ⟨ps, hps, rfl⟩ := posts_g2 qs (fun x hx => hq x (by simp [hx])) hb
    exact ⟨p :: ps, by simp [absPosts, hp, hps], by simp⟩

theorem optInt_g2 {x : Option Int} (hx : SliceIdxOK x) {L : List KV} (h : Act (optIntKV x) L) :
    ∃ a : Option Text, absOptInt a = some x ∧ optKV .integer a = L := by
  cases x with
  | none => exact ⟨none, rfl, (act_nil_inv h).symm⟩
  | some i =>
    simp only [optIntKV] at h
    obtain ⟨k1, l1, rfl, h1, h⟩ := act_cons_inv h
    cases act_nil_inv h
    obtain ⟨w, rfl, hw⟩ := actKV_integer_inv h1
    exact ⟨some w, by simp [absOptInt, absInt_of_intSpell hw hx], rfl⟩

mutual
theorem node_g2 : ∀ (n : SNode), n.WF' → ∀ (L : List KV), Act n.kv L →
    ∃ nd : CNode, nd.abs = some n ∧ nd.kv = L
  | .str s, _, L, h =>
    ⟨.str s, rfl, (act_plain_inv (by simp [SNode.kv, Plain]) h).symm⟩
  | .ci s, _, L, h =>
    ⟨.ci s, rfl, (act_plain_inv (by simp [SNode.kv, Plain]) h).symm⟩
  | .range a b, hw, L, h => by
    simp only [SNode.kv] at h
    simp only [SNode.WF'] at hw
    obtain ⟨k1, l1, rfl, h1, h⟩ := act_cons_inv h
    obtain ⟨k2, l2, rfl, h2, h⟩ := act_cons_inv h
    obtain ⟨k3, l3, rfl, h3, h⟩ := act_cons_inv h
    cases act_nil_inv h
    rw [actKV_plain (by simp [Plain])] at h2
    subst h2
    obtain ⟨w1, rfl, hw1⟩ := actKV_char_inv h1
    obtain ⟨w3, rfl, hw3⟩ := actKV_char_inv h3
    refine ⟨.range w1 w3, ?_, by simp [CNode.kv]⟩
    simp only [CNode.abs, absChar_of_charSpell hw1, absChar_of_charSpell hw3]
    rw [if_neg (by omega)]
  | .ident name, _, L, h =>
    ⟨.ident name, rfl, (act_plain_inv (by
      simp only [SNode.kv, List.mem_singleton, forall_eq]; exact plain_keyword _ _) h).symm⟩
  | .pushLit s, _, L, h =>
    ⟨.pushLit (some s), rfl, by
      rw [act_plain_inv (by simp [SNode.kv, Plain]) h]; simp [CNode.kv, SNode.kv, optKV]⟩
  | .push bar e, hw, L, h => by
    simp only [SNode.kv] at h
    simp only [SNode.WF'] at hw
    obtain ⟨l123, l4, rfl, h123, h4⟩ := act_append_inv _ h
    obtain ⟨l12, l3, rfl, h12, h3⟩ := act_append_inv _ h123
    obtain ⟨l1, l2, rfl, h1, h2⟩ := act_append_inv _ h12
    obtain ⟨ce, hce, rfl⟩ := expr_g2 e hw l3 h3
    rw [act_plain_inv (by simp [Plain]) h1, act_plain_inv (plain_barKV bar) h2,
      act_plain_inv (by simp [Plain]) h4]
    exact ⟨.push bar ce, by simp [CNode.abs, hce], by simp [CNode.kv]⟩
  | .slice a b, hw, L, h => by
    simp only [SNode.kv] at h
    simp only [SNode.WF'] at hw
    obtain ⟨l1234, l5, rfl, h1234, h5⟩ := act_append_inv _ h
    obtain ⟨l123, l4, rfl, h123, h4⟩ := act_append_inv _ h1234
    obtain ⟨l12, l3, rfl, h12, h3⟩ := act_append_inv _ h123
    obtain ⟨l1, l2, rfl, h1, h2⟩ := act_append_inv _ h12
    obtain ⟨ca, hca, rfl⟩ := optInt_g2 hw.1 h2
    obtain ⟨cb, hcb, rfl⟩ := optInt_g2 hw.2 h4
    rw [act_plain_inv (by simp [Plain]) h1, act_plain_inv (by simp [Plain]) h3,
      act_plain_inv (by simp [Plain]) h5]
    exact ⟨.slice ca cb, by simp [CNode.abs, hca, hcb], by simp [CNode.kv]⟩
  | .paren bar e, hw, L, h => by
    simp only [SNode.kv] at h
    simp only [SNode.WF'] at hw
    obtain ⟨l123, l4, rfl, h123, h4⟩ := act_append_inv _ h
    obtain ⟨l12, l3, rfl, h12, h3⟩ := act_append_inv _ h123
    obtain ⟨l1, l2, rfl, h1, h2⟩ := act_append_inv _ h12
    obtain ⟨ce, hce, rfl⟩ := expr_g2 e hw l3 h3
    rw [act_plain_inv (by simp [Plain]) h1, act_plain_inv (plain_barKV bar) h2,
      act_plain_inv (by simp [Plain]) h4]
    exact ⟨.paren bar ce, by simp [CNode.abs, hce], by simp [CNode.kv]⟩
theorem term_g2 : ∀ (t : STerm), t.WF' → ∀ (L : List KV), Act t.kv L →
    ∃ ct : CTerm, ct.abs = some t ∧ ct.kv = L
  | .mk tag pre n post, hw, L, h => by
    simp only [STerm.kv] at h
    simp only [STerm.WF'] at hw
    obtain ⟨l123, l4, rfl, h123, h4⟩ := act_append_inv _ h
    obtain ⟨l12, l3, rfl, h12, h3⟩ := act_append_inv _ h123
    obtain ⟨l1, l2, rfl, h1, h2⟩ := act_append_inv _ h12
    obtain ⟨nd, hnd, rfl⟩ := node_g2 n hw.2.1 l3 h3
    obtain ⟨ps, hps, rfl⟩ := posts_g2 post hw.2.2 h4
    rw [act_plain_inv (plain_tagKV tag) h1, act_plain_inv (plain_preKV pre) h2]
    exact ⟨.mk tag pre nd ps, by simp [CTerm.abs, hnd, hps], by simp [CTerm.kv]⟩
theorem expr_g2 : ∀ (e : SExpr), e.WF' → ∀ (L : List KV), Act e.kv L →
    ∃ ce : CExpr, ce.abs = some e ∧ ce.kv = L
  | .one t, hw, L, h => by
    simp only [SExpr.kv] at h
    simp only [SExpr.WF'] at hw
    obtain ⟨ct, hct, rfl⟩ := term_g2 t hw L h
    exact ⟨.one ct, by simp [CExpr.abs, hct], by simp [CExpr.kv]⟩
  | .cons t bar rest, hw, L, h => by
    simp only [SExpr.kv] at h
    simp only [SExpr.WF'] at hw
    obtain ⟨l12, l3, rfl, h12, h3⟩ := act_append_inv _ h
    obtain ⟨l1, l2, rfl, h1, h2⟩ := act_append_inv _ h12
    obtain ⟨ct, hct, rfl⟩ := term_g2 t hw.1 l1 h1
    obtain ⟨cr, hcr, rfl⟩ := expr_g2 rest hw.2 l3 h3
    rw [act_plain_inv (by simp only [List.mem_singleton, forall_eq]; exact plain_opKV bar) h2]
    exact ⟨.cons ct bar cr, by simp [CExpr.abs, hct, hcr], by simp [CExpr.kv]⟩
end

theorem srule_kv' (r : SRule) : r.kv = (r.docs.map (docKV .ruleDoc sRDOC)).flatten ++ r.headKV := by
  simp [SRule.kv, SRule.headKV]

theorem rule_g2 (r : SRule) (hw : r.WF') {L : List KV} (h : Act r.kv L) :
    ∃ cr : CRule, cr.abs = some r ∧ cr.kv = L := by
  rw [srule_kv'] at h
  obtain ⟨ld, lh, rfl, hd, hh⟩ := act_append_inv _ h
  rw [act_plain_inv (plain_docsKV .ruleDoc (.inl rfl) sRDOC r.docs) hd]
  simp only [SRule.headKV] at hh
  obtain ⟨l12345, l6, rfl, h12345, h6⟩ := act_append_inv _ hh
  obtain ⟨l1234, l5, rfl, h1234, h5⟩ := act_append_inv _ h12345
  obtain ⟨l123, l4, rfl, h123, h4⟩ := act_append_inv _ h1234
  obtain ⟨l12, l3, rfl, h12, h3⟩ := act_append_inv _ h123
  obtain ⟨l1, l2, rfl, h1, h2⟩ := act_append_inv _ h12
  obtain ⟨ce, hce, rfl⟩ := expr_g2 r.body hw.2.2.2 l5 h5
  rw [act_plain_inv (by simp [Plain]) h1, act_plain_inv (plain_modKV _) h2,
    act_plain_inv (by simp [Plain]) h3, act_plain_inv (plain_barKV _) h4,
    act_plain_inv (by simp [Plain]) h6]
  exact ⟨⟨r.docs, r.name, r.mod, r.bar, ce⟩, by simp [CRule.abs, hce], by simp [CRule.kv, CRule.headKV]⟩

theorem rules_g2 : ∀ (rs : List SRule), (∀ r ∈ rs, r.WF') → ∀ {L : List KV},
    Act (rs.map SRule.kv).flatten L → ∃ crs : List CRule, absRules crs = some rs ∧ (crs.map CRule.kv).flatten = L
  | [], _, L, h => ⟨[], rfl, by simpa using (act_nil_inv (by simpa using h)).symm⟩
  | r :: rs, hw, L, h => by
    simp only [List.map_cons, List.flatten_cons] at h
    obtain ⟨la, lb, rfl, ha, hb⟩ := act_append_inv _ h
    obtain ⟨cr, hcr, rfl⟩ := rule_g2 r (hw r (by simp)) ha
    obtain ⟨crs, hcrs, rfl⟩ := rules_g2 rs (fun x hx => hw x (by simp [hx])) hb
    exact ⟨cr :: crs, by simp [absRules, hcr, hcrs], by simp⟩

/-- **from the emitted tokens to a C-tree.**  A token list that is `Act`-related to the items of
    a well-formed grammar is the token list of a C-tree whose abstraction is that grammar. -/
theorem ctree_of_act {g : SGrammar} (hw : g.WF') {L : List KV} (h : Act g.kv L) :
    ∃ c : CGrammar, c.abs = some g ∧ c.kv = L := by
  simp only [SGrammar.kv] at h
  obtain ⟨l12, l3, rfl, h12, h3⟩ := act_append_inv _ h
  obtain ⟨l1, l2, rfl, h1, h2⟩ := act_append_inv _ h12
  obtain ⟨crs, hcrs, rfl⟩ := rules_g2 g.rules hw.2.1 h2
  rw [act_plain_inv (plain_docsKV .grammarDoc (.inr rfl) sGDOC g.gdocs) h1,
    act_plain_inv (plain_docsKV .ruleDoc (.inl rfl) sRDOC g.trailing) h3]
  exact ⟨⟨g.gdocs, crs, g.trailing⟩, by simp [CGrammar.abs, hcrs], by simp [CGrammar.kv]⟩

/-! ### `GrammarText` is included in `GrammarText'`, `WF` in `WF'` -/

theorem docLine_facts {l : Text} (h : IsDocLine l) : NoLF l ∧ l.getLast? ≠ some 13 := by
  unfold IsDocLine at h
  obtain ⟨h1, h2⟩ := IS.findNewline_some_inv _ _ h
  have ht : (l ++ [10]).take l.length = l := by simp
  have hd : (l ++ [10]).drop l.length = [10] := by simp
  rw [ht] at h1 h2
  rw [hd] at h2
  refine ⟨h1, ?_⟩
  rcases h2 with ⟨_, _, h2⟩ | ⟨u, hu⟩
  · exact h2
  · cases hu

theorem sliceIdxOK_of_bound {a : Option Int}
    (h : match a with | some i => i.natAbs ≤ 4294967295 | none => True) : SliceIdxOK a := by
  cases a with
  | none => trivial
  | some i =>
    have := natDigits_length (n := i.natAbs) h
    simp only [SliceIdxOK]; omega

mutual
theorem node_wf' : ∀ (n : SNode), n.WF → n.WF'
  | .str _, _ => by simp [SNode.WF']
  | .ci _, _ => by simp [SNode.WF']
  | .range a b, h => by simpa [SNode.WF, SNode.WF'] using h
  | .ident name, h => by simpa [SNode.WF, SNode.WF'] using h
  | .pushLit _, _ => by simp [SNode.WF']
  | .push _ e, h => by
    simp only [SNode.WF] at h
    simp only [SNode.WF']
    exact expr_wf' e h
  | .slice _ _, h => by
    simp only [SNode.WF] at h
    simp only [SNode.WF']
    exact ⟨sliceIdxOK_of_bound h.1, sliceIdxOK_of_bound h.2⟩
  | .paren _ e, h => by
    simp only [SNode.WF] at h
    simp only [SNode.WF']
    exact expr_wf' e h
theorem term_wf' : ∀ (t : STerm), t.WF → t.WF'
  | .mk tag pre n post, h => by
    simp only [STerm.WF] at h
    simp only [STerm.WF']
    exact ⟨h.1, node_wf' n h.2.1, h.2.2⟩
theorem expr_wf' : ∀ (e : SExpr), e.WF → e.WF'
  | .one t, h => by
    simp only [SExpr.WF] at h
    simp only [SExpr.WF']
    exact term_wf' t h
  | .cons t _ rest, h => by
    simp only [SExpr.WF] at h
    simp only [SExpr.WF']
    exact ⟨term_wf' t h.1, expr_wf' rest h.2⟩
end

theorem rule_wf' {r : SRule} (h : r.WF) : r.WF' :=
  ⟨fun l hl => (docLine_facts (h.1 l hl)).1, h.2.1, h.2.2.1, expr_wf' _ h.2.2.2⟩

/-- `WF'` is weaker than `WF` -/
theorem wf'_of_wf {g : SGrammar} (h : g.WF) : g.WF' :=
  ⟨fun l hl => (docLine_facts (h.1 l hl)).1, fun r hr => rule_wf' (h.2.1 r hr),
    fun l hl => (docLine_facts (h.2.2 l hl)).1⟩

theorem strBody_escapeBody : ∀ s : Text, StrBody (escapeBody s) s
  | [] => .nil
  | c :: r => by
    simp only [escapeBody]
    by_cases hc : c = 34 ∨ c = 92
    · rw [if_pos hc]
      have he : Unescape.Escape [c] c := by
        apply Unescape.Escape.simple
        rcases hc with rfl | rfl <;> rfl
      exact .esc (e := [c]) he (strBody_escapeBody r)
    · rw [if_neg hc]
      exact .char c (fun e => hc (.inr e)) (fun e => hc (.inl e)) (strBody_escapeBody r)

theorem charSpell_charLit (a : Nat) : CharSpell a (charLit a) := by
  unfold charLit
  by_cases ha : a = 92
  · subst ha
    rw [if_pos rfl]
    exact .esc (e := [92]) (.simple 92 92 rfl)
  · rw [if_neg ha]
    exact .raw a ha

theorem numSpell_natDigits (n : Nat) : NumSpell n (natDigits n) :=
  ⟨natDigits_ne_nil n, natDigits_all n, natDigits_val n⟩

theorem intSpell_intDigits (i : Int) : IntSpell i (intDigits i) := by
  unfold intDigits
  by_cases hi : i < 0
  · rw [if_pos hi]
    obtain ⟨d, ds, hd, h1, h2⟩ := PRT.natDigits_head (n := i.natAbs) (by omega)
    have hs := numSpell_natDigits i.natAbs
    rw [hd] at hs ⊢
    have := IntSpell.neg (zs := []) (by simp) h1 h2 hs
    have e : -(i.natAbs : Int) = i := by omega
    rw [e] at this
    exact this
  · rw [if_neg hi]
    have := IntSpell.nonneg (numSpell_natDigits i.toNat)
    have e : (i.toNat : Int) = i := by omega
    rw [e] at this
    exact this

/-- every item of the list has its canonical spelling among its spellings -/
def Canon (K : List KV) : Prop := ∀ kv ∈ K, Spells kv (spell kv)

theorem canon_append {a b : List KV} (ha : Canon a) (hb : Canon b) : Canon (a ++ b) := by
  intro kv h
  rcases List.mem_append.1 h with h | h
  · exact ha kv h
  · exact hb kv h

theorem spells_plain {k : TK} {v : Text} (h1 : k ≠ .string) (h2 : k ≠ .stringCI) (h3 : k ≠ .char)
    (h4 : k ≠ .number) (h5 : k ≠ .integer) : Spells (k, v) (spell (k, v)) := by
  cases k
  case string => exact absurd rfl h1
  case stringCI => exact absurd rfl h2
  case char => exact absurd rfl h3
  case number => exact absurd rfl h4
  case integer => exact absurd rfl h5
  all_goals simp [Spells, spell]

theorem canon_verb (K : List KV) (h : ∀ kv ∈ K, kv.1 ≠ .string ∧ kv.1 ≠ .stringCI ∧ kv.1 ≠ .char ∧
    kv.1 ≠ .number ∧ kv.1 ≠ .integer) : Canon K := by
  intro kv hkv
  obtain ⟨k, v⟩ := kv
  obtain ⟨h1, h2, h3, h4, h5⟩ := h _ hkv
  exact spells_plain h1 h2 h3 h4 h5

theorem canon_nil : Canon [] := fun _ h => by cases h

theorem canon_cons {kv : KV} {K : List KV} (h : Spells kv (spell kv)) (hK : Canon K) : Canon (kv :: K) := by
  intro x hx
  simp only [List.mem_cons] at hx
  rcases hx with rfl | hx
  · exact h
  · exact hK x hx

theorem spells_string (s : Text) : Spells (.string, s) (spell (.string, s)) :=
  ⟨escapeBody s, rfl, strBody_escapeBody s⟩

theorem spells_ci (s : Text) : Spells (.stringCI, s) (spell (.stringCI, s)) :=
  ⟨[], escapeBody s, .nil, rfl, strBody_escapeBody s⟩

theorem spells_number (n : Nat) :
    Spells (.number, natDigits n) (spell (.number, natDigits n)) :=
  ⟨n, rfl, numSpell_natDigits n⟩

theorem spells_integer (i : Int) :
    Spells (.integer, intDigits i) (spell (.integer, intDigits i)) :=
  ⟨i, rfl, intSpell_intDigits i⟩

theorem spells_char (a : Nat) : Spells (.char, charLit a) (spell (.char, charLit a)) :=
  ⟨a, rfl, charSpell_charLit a⟩

theorem spells_fixed {k : TK} {v : Text} (h1 : k ≠ .string := by decide) (h2 : k ≠ .stringCI := by decide)
    (h3 : k ≠ .char := by decide) (h4 : k ≠ .number := by decide) (h5 : k ≠ .integer := by decide) :
    Spells (k, v) (spell (k, v)) := spells_plain h1 h2 h3 h4 h5

theorem canon_post (p : Post) : Canon (postKV p) := by
  cases p with
  | opt => exact canon_cons spells_fixed canon_nil
  | rep => exact canon_cons spells_fixed canon_nil
  | rep1 => exact canon_cons spells_fixed canon_nil
  | exact n => exact canon_cons spells_fixed (canon_cons (spells_number _) (canon_cons spells_fixed canon_nil))
  | min n =>
    exact canon_cons spells_fixed (canon_cons (spells_number _)
      (canon_cons spells_fixed (canon_cons spells_fixed canon_nil)))
  | max n =>
    exact canon_cons spells_fixed (canon_cons spells_fixed
      (canon_cons (spells_number _) (canon_cons spells_fixed canon_nil)))
  | minmax m n =>
    exact canon_cons spells_fixed (canon_cons (spells_number _) (canon_cons spells_fixed
      (canon_cons (spells_number _) (canon_cons spells_fixed canon_nil))))

theorem canon_posts : ∀ (ps : List Post), Canon (ps.map postKV).flatten
  | [] => canon_nil
  | p :: ps => by
    simp only [List.map_cons, List.flatten_cons]
    exact canon_append (canon_post p) (canon_posts ps)

theorem canon_optInt (a : Option Int) : Canon (optIntKV a) := by
  cases a with
  | none => exact canon_nil
  | some i => exact canon_cons (spells_integer i) canon_nil

theorem canon_barKV (bar : Bool) : Canon (barKV bar) := by
  cases bar
  · exact canon_nil
  · exact canon_cons spells_fixed canon_nil

theorem canon_keyword (name : Text) : Canon [(keywordKind name, name)] := by
  refine canon_cons ?_ canon_nil
  rcases PRT.keywordKind_cases name with h | h | h | h | h | h <;> rw [h] <;> exact spells_fixed

mutual
theorem node_canon : ∀ (n : SNode), n.WF → Canon n.kv
  | .str s, _ => canon_cons (spells_string s) canon_nil
  | .ci s, _ => canon_cons (spells_ci s) canon_nil
  | .range a b, _ => canon_cons (spells_char a) (canon_cons spells_fixed (canon_cons (spells_char b) canon_nil))
  | .ident name, _ => canon_keyword name
  | .pushLit s, _ =>
    canon_cons spells_fixed (canon_cons spells_fixed (canon_cons (spells_string s)
      (canon_cons spells_fixed canon_nil)))
  | .push bar e, h => by
    simp only [SNode.WF] at h
    simp only [SNode.kv]
    exact canon_append (canon_append (canon_append
      (canon_cons spells_fixed (canon_cons spells_fixed canon_nil)) (canon_barKV bar))
      (expr_canon e h)) (canon_cons spells_fixed canon_nil)
  | .slice a b, h => by
    simp only [SNode.WF] at h
    simp only [SNode.kv]
    exact canon_append (canon_append (canon_append (canon_append
      (canon_cons spells_fixed (canon_cons spells_fixed canon_nil)) (canon_optInt _))
      (canon_cons spells_fixed canon_nil)) (canon_optInt _)) (canon_cons spells_fixed canon_nil)
  | .paren bar e, h => by
    simp only [SNode.WF] at h
    simp only [SNode.kv]
    exact canon_append (canon_append (canon_append
      (canon_cons spells_fixed canon_nil) (canon_barKV bar))
      (expr_canon e h)) (canon_cons spells_fixed canon_nil)
theorem term_canon : ∀ (t : STerm), t.WF → Canon t.kv
  | .mk tag pre n post, h => by
    simp only [STerm.WF] at h
    simp only [STerm.kv]
    refine canon_append (canon_append (canon_append ?_ ?_) (node_canon n h.2.1)) (canon_posts post)
    · cases tag with
      | none => exact canon_nil
      | some t => exact canon_cons spells_fixed (canon_cons spells_fixed canon_nil)
    · intro kv hkv
      simp only [List.mem_map] at hkv
      obtain ⟨b, _, rfl⟩ := hkv
      cases b <;> exact spells_fixed
theorem expr_canon : ∀ (e : SExpr), e.WF → Canon e.kv
  | .one t, h => by
    simp only [SExpr.WF] at h
    simp only [SExpr.kv]
    exact term_canon t h
  | .cons t bar rest, h => by
    simp only [SExpr.WF] at h
    simp only [SExpr.kv]
    refine canon_append (canon_append (term_canon t h.1) (canon_cons ?_ canon_nil)) (expr_canon rest h.2)
    cases bar <;> exact spells_fixed
end

theorem rule_canon {r : SRule} (h : r.WF) : Canon r.headKV := by
  simp only [SRule.headKV]
  refine canon_append (canon_append (canon_append (canon_append (canon_append
    (canon_cons spells_fixed (canon_cons spells_fixed canon_nil)) ?_)
    (canon_cons spells_fixed canon_nil)) (canon_barKV _)) (expr_canon _ h.2.2.2))
    (canon_cons spells_fixed canon_nil)
  cases r.mod with
  | none => exact canon_nil
  | some c => exact canon_cons spells_fixed canon_nil

theorem sc'_of_sc : ∀ {K : List KV} {t tl : Text}, Canon K → Sc K t tl → Sc' K t tl := by
  intro K t tl hc hs
  induction hs with
  | nil tl => exact .nil tl
  | cons kv hw _ ih =>
    exact .cons kv (hc kv (by simp)) hw (ih fun x hx => hc x (by simp [hx]))

theorem docsText'_of_docsText (m : Text) : ∀ (docs : List Text) {t tl : Text},
    (∀ l ∈ docs, IsDocLine l) → DocsText m docs t tl → DocsText' m docs t tl
  | [], _, _, _, h => h
  | l :: ls, t, tl, hd, h => by
    obtain ⟨sp, ws, t', hsp, hws, rfl, hrest⟩ := h
    refine ⟨sp, 10 :: ws, t', hsp, .lf hws, by simp, ?_,
      docsText'_of_docsText m ls (fun x hx => hd x (by simp [hx])) hrest⟩
    exact .inr (.inl ⟨ws ++ t', by simp, (docLine_facts (hd l (by simp))).2⟩)

theorem rulesText'_of_rulesText : ∀ (rs : List SRule) {t tl : Text}, (∀ r ∈ rs, r.WF) →
    RulesText rs t tl → RulesText' rs t tl
  | [], _, _, _, h => h
  | r :: rs, t, tl, hw, h => by
    obtain ⟨t1, t2, hd, hs, hrest⟩ := h
    have hr := hw r (by simp)
    exact ⟨t1, t2, docsText'_of_docsText sRDOC r.docs hr.1 hd, sc'_of_sc (rule_canon hr) hs,
      rulesText'_of_rulesText rs (fun x hx => hw x (by simp [hx])) hrest⟩

/-- `GrammarText'` extends `GrammarText` -/
theorem grammarText'_of_grammarText {g : SGrammar} (h : g.WF) {t : Text} (ht : GrammarText g t) :
    GrammarText' g t := by
  obtain ⟨lead, t0, t1, t2, hl, rfl, hg, hr, htr⟩ := ht
  exact ⟨lead, t0, t1, t2, [], hl, rfl, docsText'_of_docsText sGDOC g.gdocs h.1 hg,
    rulesText'_of_rulesText g.rules h.2.1 hr, docsText'_of_docsText sRDOC g.trailing h.2.2 htr, .inl rfl⟩

/-! ### what `WF` asks beyond `WF'` -/

theorem isDocLine_of : ∀ (l : Text), NoLF l → l.getLast? ≠ some 13 → IsDocLine l
  | [], _, _ => by unfold IsDocLine; rfl
  | c :: r, h1, h2 => by
    have hc : c ≠ 10 := h1 c (by simp)
    have hr : NoLF r := fun x hx => h1 x (by simp [hx])
    have h13 : c = 13 → (r ++ [10]).head? ≠ some 10 := by
      intro e
      subst e
      cases r with
      | nil => simp at h2
      | cons x r' =>
        have := h1 x (by simp)
        simpa using this
    have hr2 : r.getLast? ≠ some 13 := by
      cases r with
      | nil => simp
      | cons x r' => rwa [List.getLast?_cons_cons] at h2
    have ih := isDocLine_of r hr hr2
    unfold IsDocLine at ih ⊢
    rw [List.cons_append, RT.findNewline_cons hc h13, ih]
    simp

mutual
/-- the bound `WF` puts on the indices of `PEEK[a..b]` -/
def SliceOKN : SNode → Prop
  | .slice a b =>
    (match a with | some i => i.natAbs ≤ 4294967295 | none => True) ∧
    (match b with | some i => i.natAbs ≤ 4294967295 | none => True)
  | .push _ e => SliceOKE e
  | .paren _ e => SliceOKE e
  | _ => True
def SliceOKT : STerm → Prop
  | .mk _ _ n _ => SliceOKN n
def SliceOKE : SExpr → Prop
  | .one t => SliceOKT t
  | .cons t _ rest => SliceOKT t ∧ SliceOKE rest
end

mutual
theorem node_wf_iff : ∀ (n : SNode), n.WF ↔ n.WF' ∧ SliceOKN n
  | .str _ => by simp [SNode.WF, SNode.WF', SliceOKN]
  | .ci _ => by simp [SNode.WF, SNode.WF', SliceOKN]
  | .range _ _ => by simp [SNode.WF, SNode.WF', SliceOKN]
  | .ident _ => by simp [SNode.WF, SNode.WF', SliceOKN]
  | .pushLit _ => by simp [SNode.WF, SNode.WF', SliceOKN]
  | .push _ e => by simp only [SNode.WF, SNode.WF', SliceOKN]; exact expr_wf_iff e
  | .slice a b => by
    constructor
    · intro h
      refine ⟨node_wf' _ h, ?_⟩
      simp only [SNode.WF] at h
      cases a <;> cases b <;> simp [SliceOKN] at h ⊢ <;> exact h
    · rintro ⟨_, h⟩
      cases a <;> cases b <;> simp [SNode.WF, SliceOKN] at h ⊢ <;> exact h
  | .paren _ e => by simp only [SNode.WF, SNode.WF', SliceOKN]; exact expr_wf_iff e
theorem term_wf_iff : ∀ (t : STerm), t.WF ↔ t.WF' ∧ SliceOKT t
  | .mk tag pre n post => by
    simp only [STerm.WF, STerm.WF', SliceOKT, node_wf_iff n]
    constructor
    · rintro ⟨a, ⟨b, c⟩, d⟩; exact ⟨⟨a, b, d⟩, c⟩
    · rintro ⟨⟨a, b, d⟩, c⟩; exact ⟨a, ⟨b, c⟩, d⟩
theorem expr_wf_iff : ∀ (e : SExpr), e.WF ↔ e.WF' ∧ SliceOKE e
  | .one t => by simp only [SExpr.WF, SExpr.WF', SliceOKE]; exact term_wf_iff t
  | .cons t _ rest => by
    simp only [SExpr.WF, SExpr.WF', SliceOKE, term_wf_iff t, expr_wf_iff rest]
    constructor
    · rintro ⟨⟨a, b⟩, c, d⟩; exact ⟨⟨a, c⟩, b, d⟩
    · rintro ⟨⟨a, c⟩, b, d⟩; exact ⟨⟨a, b⟩, c, d⟩
end

/-- no doc line ends with CR -/
def NoCR (docs : List Text) : Prop := ∀ l ∈ docs, l.getLast? ≠ some 13

/-- what `WF` asks beyond `WF'`: slice indices within ±(2³²−1), no doc line ending with CR -/
def Extra (g : SGrammar) : Prop :=
  NoCR g.gdocs ∧ (∀ r ∈ g.rules, NoCR r.docs ∧ SliceOKE r.body) ∧ NoCR g.trailing

theorem docs_wf_iff (docs : List Text) : (∀ l ∈ docs, IsDocLine l) ↔ (∀ l ∈ docs, NoLF l) ∧ NoCR docs := by
  constructor
  · intro h
    exact ⟨fun l hl => (docLine_facts (h l hl)).1, fun l hl => (docLine_facts (h l hl)).2⟩
  · rintro ⟨h1, h2⟩ l hl
    exact isDocLine_of l (h1 l hl) (h2 l hl)

theorem wf_iff (g : SGrammar) : g.WF ↔ g.WF' ∧ Extra g := by
  unfold SGrammar.WF SGrammar.WF' Extra
  rw [docs_wf_iff g.gdocs, docs_wf_iff g.trailing]
  constructor
  · rintro ⟨⟨a1, a2⟩, hr, b1, b2⟩
    refine ⟨⟨a1, ?_, b1⟩, a2, ?_, b2⟩
    · intro r hr'
      obtain ⟨d, n, m, e⟩ := hr r hr'
      exact ⟨((docs_wf_iff r.docs).1 d).1, n, m, ((expr_wf_iff r.body).1 e).1⟩
    · intro r hr'
      obtain ⟨d, n, m, e⟩ := hr r hr'
      exact ⟨((docs_wf_iff r.docs).1 d).2, ((expr_wf_iff r.body).1 e).2⟩
  · rintro ⟨⟨a1, hr, b1⟩, a2, hx, b2⟩
    refine ⟨⟨a1, a2⟩, ?_, b1, b2⟩
    intro r hr'
    obtain ⟨d, n, m, e⟩ := hr r hr'
    obtain ⟨x1, x2⟩ := hx r hr'
    exact ⟨(docs_wf_iff r.docs).2 ⟨d, x1⟩, n, m, (expr_wf_iff r.body).2 ⟨e, x2⟩⟩

end IG
end Front
end Pest
