/-
  Lemmas/TagHist.lean — the pending-tag stack is part of a checkpoint.

  `ParserState.checkpoint()` saves `tag_stack` on `_tag_history`, `ok()` forgets the saved copy,
  `restore()` reinstates it.  Basic facts about the two fields `tagStack` / `tagHist` under
  `checkpoint / ok / restore / fail`, shared by GenEq, Shift, TreeWF and Props/Tags.
-/
import PestModel.Interp
import PestModel.Gen

namespace Pest

@[simp] theorem checkpoint_tagStack (c : PState) : c.checkpoint.tagStack = c.tagStack := rfl
@[simp] theorem checkpoint_tagHist (c : PState) :
    c.checkpoint.tagHist = c.tagStack :: c.tagHist := rfl
@[simp] theorem ok_tagStack (c : PState) : c.ok.tagStack = c.tagStack := rfl
@[simp] theorem ok_tagHist (c : PState) : c.ok.tagHist = c.tagHist.tail := rfl
@[simp] theorem restore_tagStack (c : PState) :
    c.restore.tagStack = c.tagHist.headD c.tagStack := rfl
@[simp] theorem restore_tagHist (c : PState) : c.restore.tagHist = c.tagHist.tail := rfl

/-- `restore` after a balanced run from a checkpoint gives back the tags of the checkpoint -/
theorem restore_tags_of_hist {c c1 : PState} (h : c1.tagHist = c.tagStack :: c.tagHist) :
    c1.restore.tagStack = c.tagStack ∧ c1.restore.tagHist = c.tagHist := by
  simp [h]

/-- `ok` after a balanced run from a checkpoint forgets the saved tags and keeps the current ones -/
theorem ok_tags_of_hist {c c1 : PState} (h : c1.tagHist = c.tagStack :: c.tagHist) :
    c1.ok.tagStack = c1.tagStack ∧ c1.ok.tagHist = c.tagHist := by
  simp [h]

theorem failRecord_tags (c : PState) (name : String) (p : Nat) :
    (c.failRecord name p).tagStack = c.tagStack ∧ (c.failRecord name p).tagHist = c.tagHist := by
  unfold PState.failRecord
  by_cases h1 : (p : Int) > c.fpos
  · simp [h1]
  · by_cases h2 : (p : Int) = c.fpos
    · by_cases h3 : (c.negDepth % 2 == 1) = true <;> simp [h2, h3]
    · simp [h1, h2]

/-- `fail()` touches neither the pending tags nor their history -/
theorem fail_tags {c c' : PState} {rn : Option String} {force : Bool} {pa : Option Nat}
    (h : c.fail rn force pa = some c') : c'.tagStack = c.tagStack ∧ c'.tagHist = c.tagHist := by
  unfold PState.fail at h
  by_cases hs : ((c.negDepth > 0 && !force) || c.suppress) = true
  · simp only [hs, ↓reduceIte, Option.some.injEq] at h; subst h; simp
  · simp only [hs] at h
    cases hn : c.failName rn with
    | none => simp [hn] at h
    | some nm =>
      simp [hn] at h
      subst h
      exact failRecord_tags c nm _

theorem fail_tagHist {c c' : PState} {rn : Option String} {force : Bool} {pa : Option Nat}
    (h : c.fail rn force pa = some c') : c'.tagHist = c.tagHist := (fail_tags h).2

theorem ruleEnter_tagStack (name : String) (mod : Nat) (c : PState) :
    (L1.ruleEnter name mod c).tagStack = c.tagStack := by
  unfold L1.ruleEnter
  by_cases hA : (hasBit mod ATOMIC || hasBit mod COMPOUND || L1.isTriviaName name) = true
  · simp [hA]
  · by_cases hN : hasBit mod NONATOMIC = true <;> simp [hA, hN]

theorem ruleEnter_tagHist (name : String) (mod : Nat) (c : PState) :
    (L1.ruleEnter name mod c).tagHist = c.tagHist := by
  unfold L1.ruleEnter
  by_cases hA : (hasBit mod ATOMIC || hasBit mod COMPOUND || L1.isTriviaName name) = true
  · simp [hA]
  · by_cases hN : hasBit mod NONATOMIC = true <;> simp [hA, hN]

/-! ## every node balances the tag history and only ever consumes pending tags (L1) -/

/-- what a run from `c` to `c'` does to the tags: the history of saved tag stacks is back to
    what it was, and the pending tags are a suffix of those pending at the start (tags are only
    consumed from the top; whatever a node pushes it removes again) -/
structure TagFrame (c c' : PState) : Prop where
  hist : c'.tagHist = c.tagHist
  suf : c'.tagStack <:+ c.tagStack

/-- both tag components are the same -/
structure TagEq (c c' : PState) : Prop where
  stack : c'.tagStack = c.tagStack
  hist : c'.tagHist = c.tagHist

namespace TagEq
theorem refl (c : PState) : TagEq c c := ⟨rfl, rfl⟩
theorem frame {c c' : PState} (h : TagEq c c') : TagFrame c c' :=
  ⟨h.hist, by rw [h.stack]; exact List.suffix_refl _⟩
theorem trans {a b c : PState} (h1 : TagEq a b) (h2 : TagEq b c) : TagEq a c :=
  ⟨h2.stack.trans h1.stack, h2.hist.trans h1.hist⟩
end TagEq

theorem suffix_tail_of_cons {α} {l s : List α} {t : α} (h : l <:+ t :: s) : l.tail <:+ s := by
  rcases List.suffix_cons_iff.mp h with rfl | h
  · exact List.suffix_refl _
  · exact (List.tail_suffix l).trans h

namespace TagFrame

theorem refl (c : PState) : TagFrame c c := ⟨rfl, List.suffix_refl _⟩

theorem of_eq {c c' : PState} (h1 : c'.tagStack = c.tagStack := by rfl)
    (h2 : c'.tagHist = c.tagHist := by rfl) : TagFrame c c' :=
  ⟨h2, by rw [h1]; exact List.suffix_refl _⟩

theorem trans {a b c : PState} (h1 : TagFrame a b) (h2 : TagFrame b c) : TagFrame a c :=
  ⟨h2.hist.trans h1.hist, h2.suf.trans h1.suf⟩

/-- `checkpoint`, a framed run, `ok`: a framed run -/
theorem ok_after {c c1 : PState} (f : TagFrame c.checkpoint c1) : TagFrame c c1.ok :=
  ⟨by simp [f.hist], by simpa using f.suf⟩

/-- `checkpoint`, a framed run, `restore`: the tags are exactly those of the checkpoint -/
theorem restore_after {c c1 : PState} (f : TagFrame c.checkpoint c1) : TagEq c c1.restore :=
  ⟨by simp [f.hist], by simp [f.hist]⟩

end TagFrame

/-- the semantic function `rec` is tag-framed -/
def TagBal (rec : Sem1) : Prop := ∀ x c m c' ps, rec x c = .done m c' ps → TagFrame c c'

namespace L1

variable {g : Grammar} (inp : Input)

/-- what every result of the helpers below satisfies, relative to the start state `c` -/
def TF (c : PState) (r : R1) : Prop := ∀ m c' ps, r = .done m c' ps → TagFrame c c'

theorem TF.oof {c : PState} : TF c .oof := by intro m c' ps h; cases h
theorem TF.exc {c : PState} (k : PyExc) : TF c (.exc k) := by intro m c' ps h; cases h
theorem TF.done {c d : PState} {m : Bool} {ps : List Pair} (h : TagFrame c d) :
    TF c (.done m d ps) := by
  intro m' c' ps' e
  simp only [R1.done.injEq] at e
  obtain ⟨_, rfl, _⟩ := e
  exact h
theorem TF.mono {c d : PState} {r : R1} (f : TagFrame c d) (h : TF d r) : TF c r :=
  fun m c' ps e => f.trans (h m c' ps e)

theorem failT_tf (c : PState) : TF c (failT c) := by
  unfold failT
  cases hf : c.fail none false with
  | none => exact .exc _
  | some c1 => exact .done (.of_eq (fail_tags hf).1 (fail_tags hf).2)

theorem ruleExit_tf (name : String) (mod : Nat) (start : Nat) (matched : Bool) (c2 : PState)
    (children : List Pair) : TF c2 (ruleExit name mod start matched c2 children) := by
  unfold ruleExit
  generalize hc3 : (if ruleScoped name mod then ({ c2 with adepth := c2.adepth.restore } : PState) else c2) = c3
  have h3 : c3.tagStack = c2.tagStack ∧ c3.tagHist = c2.tagHist := by
    subst hc3; split <;> exact ⟨rfl, rfl⟩
  simp only []
  cases hp : c3.rstack.pop with
  | none => exact .exc _
  | some q =>
    obtain ⟨x, rs⟩ := q
    simp only []
    cases matched with
    | false => exact .done (.of_eq h3.1 h3.2)
    | true =>
      simp only [Bool.not_true, Bool.false_eq_true, ↓reduceIte]
      by_cases hS : hasBit mod SILENT = true
      · simp only [hS, ↓reduceIte]
        exact .done (.of_eq h3.1 h3.2)
      · simp only [hS, Bool.false_eq_true, ↓reduceIte]
        cases ht : c3.tagStack with
        | nil =>
          simp only []
          exact .done ⟨h3.2, by show [] <:+ c2.tagStack; exact List.nil_suffix⟩
        | cons t ts =>
          simp only []
          exact .done ⟨h3.2, by rw [← h3.1, ht]; exact List.suffix_cons t ts⟩

theorem ruleParse_tf {rec : Sem1} (hrec : TagBal rec) (name : String) (mod : Nat) (body : Expr)
    (c : PState) : TF c (ruleParse rec name mod body c) := by
  unfold ruleParse
  have hen : TagFrame c (ruleEnter name mod { c with rstack := c.rstack.push name }) :=
    .of_eq (by rw [ruleEnter_tagStack]) (by rw [ruleEnter_tagHist])
  cases hr : rec body (ruleEnter name mod { c with rstack := c.rstack.push name }) with
  | oof => exact .oof
  | exc k => exact .exc k
  | done matched c2 children =>
    exact TF.mono (hen.trans (hrec _ _ _ _ _ hr)) (ruleExit_tf name mod c.pos matched c2 children)

theorem withTag_tf (tag : Option String) (c : PState) {body : PState → R1}
    (hbody : ∀ d, TF d (body d)) : TF c (withTag tag c body) := by
  unfold withTag
  cases tag with
  | none => exact hbody c
  | some t =>
    simp only []
    have hb := hbody { c with tagStack := t :: c.tagStack }
    cases hr : body { c with tagStack := t :: c.tagStack } with
    | oof => exact .oof
    | exc k => exact .exc k
    | done m c' ps =>
      have f := hb m c' ps hr
      exact .done ⟨f.hist, suffix_tail_of_cons f.suf⟩

theorem callRule_tf {rec : Sem1} (hrec : TagBal rec) (name : String) (c : PState) :
    TF c (callRule g rec name c) := by
  unfold callRule
  cases hl : g.lookup name with
  | none => exact .exc _
  | some r => exact ruleParse_tf hrec r.name r.mod r.body c

/-- one guarded attempt at a trivia rule: after a failed attempt the tags are those before it -/
def TFTry (c : PState) : TryR → Prop
  | .matched c' _ => TagFrame c c'
  | .no c1 => TagEq c c1
  | .stop r => ∀ m c' ps, r ≠ .done m c' ps

theorem tryTrivia_tf {rec : Sem1} (hrec : TagBal rec) (r : Option Rule) (c : PState) :
    TFTry c (tryTrivia rec r c) := by
  unfold tryTrivia
  cases r with
  | none => exact TagEq.refl c
  | some r =>
    simp only []
    have hp := ruleParse_tf hrec r.name r.mod r.body c.checkpoint
    cases hx : ruleParse rec r.name r.mod r.body c.checkpoint with
    | oof => intro m c' ps h; cases h
    | exc k => intro m c' ps h; cases h
    | done m c' ps =>
      have f := hp m c' ps hx
      cases m with
      | true => exact f.ok_after
      | false => exact f.restore_after

theorem triviaLoop_tf {rec : Sem1} (hrec : TagBal rec) (ws cm : Option Rule) :
    ∀ (k : Nat) (c : PState) (acc : List Pair), TF c (triviaLoop rec ws cm k c acc) := by
  intro k
  induction k with
  | zero => intro c acc; simp only [triviaLoop]; exact .oof
  | succ k ih =>
    intro c acc
    simp only [triviaLoop]
    have h1 := tryTrivia_tf hrec ws c
    cases hx : tryTrivia rec ws c with
    | matched c' ps =>
      rw [hx] at h1
      exact TF.mono h1 (ih c' _)
    | stop r =>
      rw [hx] at h1
      intro m c' ps h
      exact absurd h (h1 m c' ps)
    | no c1 =>
      rw [hx] at h1
      simp only []
      have h2 := tryTrivia_tf hrec cm c1
      cases hy : tryTrivia rec cm c1 with
      | matched c' ps =>
        rw [hy] at h2
        exact TF.mono (h1.frame.trans h2) (ih c' _)
      | stop r =>
        rw [hy] at h2
        intro m c' ps h
        exact absurd h (h2 m c' ps)
      | no c2 =>
        rw [hy] at h2
        exact .done (h1.trans h2).frame

theorem parseTrivia_tf {rec : Sem1} (hrec : TagBal rec) (k : Nat) (c : PState) :
    TF c (parseTrivia g rec k c) := by
  unfold parseTrivia
  by_cases ha : c.adepth.val > 0
  · simp only [ha, ↓reduceIte]; exact .done (.refl c)
  · simp only [ha, ↓reduceIte]
    cases hf : g.fusedSkip with
    | some r =>
      simp only []
      exact ruleParse_tf hrec r.name r.mod r.body c
    | none =>
      simp only []
      by_cases hn : ((g.lookup "WHITESPACE").isNone && (g.lookup "COMMENT").isNone) = true
      · simp only [hn, ↓reduceIte]; exact .done (.refl c)
      · simp only [hn, Bool.false_eq_true, ↓reduceIte]
        have hl := triviaLoop_tf hrec (g.lookup "WHITESPACE") (g.lookup "COMMENT") k
          { c with suppress := true } []
        cases hx : triviaLoop rec (g.lookup "WHITESPACE") (g.lookup "COMMENT") k { c with suppress := true } [] with
        | oof => exact .oof
        | exc kx => exact .exc kx
        | done m c' ps =>
          have f := hl m c' ps hx
          exact .done ⟨f.hist, f.suf⟩

theorem seqParse_tf {rec : Sem1} (hrec : TagBal rec) (k : Nat) :
    ∀ (es : List Expr) (c : PState) (acc : List Pair), TF c (seqParse g rec k es c acc) := by
  intro es
  induction es with
  | nil => intro c acc; simp only [seqParse]; exact .done (.refl c)
  | cons e rest ih =>
    intro c acc
    simp only [seqParse]
    cases he : rec e c with
    | oof => exact .oof
    | exc kx => exact .exc kx
    | done m c1 ps =>
      have a := hrec _ _ _ _ _ he
      cases m with
      | false => exact .done a
      | true =>
        simp only []
        by_cases hr : rest.isEmpty = true
        · simp only [hr, ↓reduceIte]; exact .done a
        · simp only [hr, Bool.false_eq_true, ↓reduceIte]
          have ht := parseTrivia_tf (g := g) hrec k c1
          cases hx : parseTrivia g rec k c1 with
          | oof => exact .oof
          | exc kx => exact .exc kx
          | done m2 c2 tps =>
            exact TF.mono (a.trans (ht m2 c2 tps hx)) (ih c2 _)

/-- `Choice.parse`: framed; and when every alternative fails the tags are exactly those at the
    start -/
theorem choiceParse_tf {rec : Sem1} (hrec : TagBal rec) :
    ∀ (es : List Expr) (c : PState), TF c (choiceParse rec es c) ∧
      ∀ c' ps, choiceParse rec es c = .done false c' ps → TagEq c c' := by
  intro es
  induction es with
  | nil =>
    intro c
    simp only [choiceParse]
    refine ⟨.done (.refl c), ?_⟩
    intro c' ps h
    simp only [R1.done.injEq, true_and] at h
    obtain ⟨rfl, _⟩ := h
    exact TagEq.refl _
  | cons e rest ih =>
    intro c
    simp only [choiceParse]
    cases he : rec e c.checkpoint with
    | oof => exact ⟨.oof, fun _ _ h => by cases h⟩
    | exc kx => exact ⟨.exc kx, fun _ _ h => by cases h⟩
    | done m c1 ps =>
      have a := hrec _ _ _ _ _ he
      cases m with
      | true =>
        refine ⟨.done a.ok_after, ?_⟩
        intro c' ps' h
        simp only [R1.done.injEq] at h
        exact absurd h.1 (by decide)
      | false =>
        simp only []
        have r := a.restore_after
        exact ⟨TF.mono r.frame (ih c1.restore).1, fun c' ps' h => r.trans ((ih c1.restore).2 c' ps' h)⟩

theorem repLoop_tf {rec : Sem1} (hrec : TagBal rec) (e : Expr) (kk : Nat) :
    ∀ (k : Nat) (first : Bool) (c : PState) (acc : List Pair),
      TF c (repLoop g rec e k kk first c acc) := by
  intro k
  induction k with
  | zero => intro first c acc; simp only [repLoop]; exact .oof
  | succ k ih =>
    intro first c acc
    simp only [repLoop]
    have hT : TF c.checkpoint
        (if first = true then R1.done true c.checkpoint [] else parseTrivia g rec kk c.checkpoint) := by
      by_cases hf : first = true
      · simp only [hf, ↓reduceIte]; exact .done (.refl _)
      · simp only [hf, Bool.false_eq_true, ↓reduceIte]
        exact parseTrivia_tf hrec kk _
    cases hx : (if first = true then R1.done true c.checkpoint [] else parseTrivia g rec kk c.checkpoint) with
    | oof => exact .oof
    | exc kx => exact .exc kx
    | done m c1 tps =>
      have a1 := hT m c1 tps hx
      simp only []
      cases he : rec e c1 with
      | oof => exact .oof
      | exc kx => exact .exc kx
      | done m2 c2 ps =>
        have a2 := a1.trans (hrec _ _ _ _ _ he)
        cases m2 with
        | true => exact TF.mono a2.ok_after (ih false c2.ok _)
        | false => exact .done a2.restore_after.frame

/-- POP_ALL runs under the checkpoint taken at `c0` -/
theorem popAllLoop_tf (c0 : PState) : ∀ (k : Nat) (c : PState) (position : Nat),
    TagFrame c0.checkpoint c → TF c0 (popAllLoop inp k c position) := by
  intro k
  induction k with
  | zero => intro c position _; simp only [popAllLoop]; exact .oof
  | succ k ih =>
    intro c position hc
    simp only [popAllLoop]
    cases hp : c.ustack.pop with
    | none =>
      have := hc.ok_after
      exact .done ⟨this.hist, this.suf⟩
    | some q =>
      obtain ⟨lit, us⟩ := q
      simp only []
      by_cases hm : startsWithAt inp lit position = true
      · simp only [hm, ↓reduceIte]
        exact ih _ _ ⟨hc.hist, hc.suf⟩
      · simp only [hm, Bool.false_eq_true, ↓reduceIte]
        have hc' : TagFrame c0.checkpoint { c with ustack := us } := ⟨hc.hist, hc.suf⟩
        exact TF.mono hc'.restore_after.frame (failT_tf _)

theorem step_tf {rec : Sem1} (k : Nat) (hrec : TagBal rec) : TagBal (step g inp k rec) := by
  intro x c m c' ps
  suffices hpost : TF c (step g inp k rec x c) from hpost m c' ps
  have hnil : ∀ {m : Bool} {d : PState} {ps : List Pair}, d.tagStack = c.tagStack →
      d.tagHist = c.tagHist → TF c (.done m d ps) := fun e1 e2 => .done (.of_eq e1 e2)
  cases x with
  | str s =>
    simp only [step]
    split
    · exact hnil rfl rfl
    · exact failT_tf c
  | ci s =>
    simp only [step]
    split
    · exact hnil rfl rfl
    · exact failT_tf c
  | range a b =>
    simp only [step]
    split
    · split
      · exact hnil rfl rfl
      · exact failT_tf c
    · exact failT_tf c
  | ident name tag =>
    simp only [step]
    exact withTag_tf tag c (fun d => callRule_tf hrec name d)
  | rule name mod sm body => exact ruleParse_tf hrec name mod body c
  | seq es => exact seqParse_tf hrec k es c []
  | choice es => exact (choiceParse_tf hrec es c).1
  | opt e =>
    simp only [step]
    cases he : rec e c.checkpoint with
    | oof => exact .oof
    | exc kx => exact .exc kx
    | done m1 c1 ps1 =>
      have a := hrec _ _ _ _ _ he
      cases m1 with
      | true => exact .done a.ok_after
      | false => exact .done a.restore_after.frame
  | rep e => exact repLoop_tf hrec e k k true c []
  | rep1 e => exact seqParse_tf hrec k _ c []
  | repExact e n => exact seqParse_tf hrec k _ c []
  | repMin e n => exact seqParse_tf hrec k _ c []
  | repMax e n => exact seqParse_tf hrec k _ c []
  | repMinMax e m n => exact seqParse_tf hrec k _ c []
  | andP e =>
    simp only [step]
    cases he : rec e c.checkpoint with
    | oof => exact .oof
    | exc kx => exact .exc kx
    | done m1 c1 ps1 =>
      have a := hrec _ _ _ _ _ he
      exact .done a.restore_after.frame
  | notP e =>
    simp only [step]
    cases he : rec e { c.checkpoint with negDepth := c.checkpoint.negDepth + 1 } with
    | oof => exact .oof
    | exc kx => exact .exc kx
    | done m1 c1 ps1 =>
      have a' := hrec _ _ _ _ _ he
      have a : TagFrame c.checkpoint c1 := ⟨a'.hist, a'.suf⟩
      have r := a.restore_after
      simp only []
      cases m1 with
      | false =>
        simp only [Bool.false_eq_true, ↓reduceIte]
        exact .done (.of_eq r.stack r.hist)
      | true =>
        simp only [↓reduceIte]
        cases hf : c1.restore.fail (failedName e) true with
        | none => exact .exc _
        | some c3 =>
          simp only []
          exact .done (.of_eq ((fail_tags hf).1.trans r.stack) ((fail_tags hf).2.trans r.hist))
  | group e tag =>
    simp only [step]
    exact withTag_tf tag c (fun d m1 c1 ps1 h1 => hrec _ _ _ _ _ h1)
  | push e =>
    simp only [step]
    cases he : rec e c with
    | oof => exact .oof
    | exc kx => exact .exc kx
    | done m1 c1 ps1 =>
      have a := hrec _ _ _ _ _ he
      cases m1 with
      | true => exact .done ⟨a.hist, a.suf⟩
      | false => exact .done a
  | pushLit s => simp only [step]; exact hnil rfl rfl
  | peekSlice a b =>
    simp only [step]
    split
    · exact hnil rfl rfl
    · exact failT_tf c
  | peek =>
    simp only [step]
    split
    · exact hnil rfl rfl
    · split
      · exact hnil rfl rfl
      · exact failT_tf c
  | peekAll =>
    simp only [step]
    split
    · exact hnil rfl rfl
    · exact failT_tf c
  | pop =>
    simp only [step]
    split
    · exact hnil rfl rfl
    · split
      · split
        · exact hnil rfl rfl
        · exact .exc _
      · exact failT_tf c
  | popAll => simp only [step]; exact popAllLoop_tf inp c _ _ _ (.refl _)
  | drop =>
    simp only [step]
    split
    · exact hnil rfl rfl
    · exact failT_tf c
  | anyB =>
    simp only [step]
    split
    · exact hnil rfl rfl
    · exact hnil rfl rfl
  | soiB => simp only [step]; exact hnil rfl rfl
  | eoiB => simp only [step]; exact hnil rfl rfl
  | uprop n =>
    simp only [step]
    split
    · split
      · exact hnil rfl rfl
      · exact hnil rfl rfl
    · exact hnil rfl rfl
  | skipUntil subs => simp only [step]; exact hnil rfl rfl
  | optChoice alts star =>
    simp only [step]
    split
    · exact hnil rfl rfl
    · exact hnil rfl rfl

theorem run_tf (g : Grammar) : ∀ n, TagBal (run g inp n) := by
  intro n
  induction n with
  | zero => intro x c m c' ps h; simp [run] at h
  | succ n ih => exact step_tf inp n ih

end L1

/-! ## the same for the generated-code model LG -/

/-- the generated-code semantic function `rec` is tag-framed -/
def TagBalG (rec : SemG) : Prop := ∀ x c ps0 m c' ps, rec x c ps0 = .done m c' ps → TagFrame c c'

namespace LG

variable {g : Grammar} (inp : Input)

def TF (c : PState) (r : RG) : Prop := ∀ m c' ps, r = .done m c' ps → TagFrame c c'

theorem TF.oof {c : PState} : TF c .oof := by intro m c' ps h; cases h
theorem TF.exc {c : PState} (k : PyExc) : TF c (.exc k) := by intro m c' ps h; cases h
theorem TF.done {c d : PState} {m : Bool} {ps : List Pair} (h : TagFrame c d) :
    TF c (.done m d ps) := by
  intro m' c' ps' e
  simp only [RG.done.injEq] at e
  obtain ⟨_, rfl, _⟩ := e
  exact h
theorem TF.mono {c d : PState} {r : RG} (f : TagFrame c d) (h : TF d r) : TF c r :=
  fun m c' ps e => f.trans (h m c' ps e)

theorem failT_tf (c : PState) (ps : List Pair) : TF c (failT c ps) := by
  unfold failT
  cases hf : c.fail none false with
  | none => exact .exc _
  | some c1 => exact .done (.of_eq (fail_tags hf).1 (fail_tags hf).2)

theorem ruleExitG_tf (name : String) (mod : Nat) (start : Nat) (matched : Bool) (c2 : PState)
    (children ps : List Pair) : TF c2 (ruleExitG name mod start matched c2 children ps) := by
  unfold ruleExitG
  generalize hc3 : (if L1.ruleScoped name mod then ({ c2 with adepth := c2.adepth.restore } : PState) else c2) = c3
  have h3 : c3.tagStack = c2.tagStack ∧ c3.tagHist = c2.tagHist := by
    subst hc3; split <;> exact ⟨rfl, rfl⟩
  simp only []
  cases hp : c3.rstack.pop with
  | none => exact .exc _
  | some q =>
    obtain ⟨x, rs⟩ := q
    simp only []
    cases matched with
    | false => exact .done (.of_eq h3.1 h3.2)
    | true =>
      simp only [Bool.not_true, Bool.false_eq_true, ↓reduceIte]
      by_cases hS : hasBit mod SILENT = true
      · simp only [hS, ↓reduceIte]
        exact .done (.of_eq h3.1 h3.2)
      · simp only [hS, Bool.false_eq_true, ↓reduceIte]
        cases ht : c3.tagStack with
        | nil =>
          simp only []
          exact .done ⟨h3.2, by show [] <:+ c2.tagStack; exact List.nil_suffix⟩
        | cons t ts =>
          simp only []
          exact .done ⟨h3.2, by rw [← h3.1, ht]; exact List.suffix_cons t ts⟩

theorem ruleG_tf {rec : SemG} (hrec : TagBalG rec) (name : String) (mod : Nat) (body : Expr)
    (c : PState) (ps : List Pair) : TF c (ruleG rec name mod body c ps) := by
  unfold ruleG
  have hen : TagFrame c (L1.ruleEnter name mod { c with rstack := c.rstack.push name }) :=
    .of_eq (by rw [ruleEnter_tagStack]) (by rw [ruleEnter_tagHist])
  cases hr : rec body (L1.ruleEnter name mod { c with rstack := c.rstack.push name }) [] with
  | oof => exact .oof
  | exc k => exact .exc k
  | done matched c2 children =>
    exact TF.mono (hen.trans (hrec _ _ _ _ _ _ hr)) (ruleExitG_tf name mod c.pos matched c2 children ps)

theorem withTagG_tf (tag : Option String) (c : PState) {body : PState → RG}
    (hbody : ∀ d, TF d (body d)) : TF c (withTagG tag c body) := by
  unfold withTagG
  cases tag with
  | none => exact hbody c
  | some t =>
    simp only []
    have hb := hbody { c with tagStack := t :: c.tagStack }
    cases hr : body { c with tagStack := t :: c.tagStack } with
    | oof => exact .oof
    | exc k => exact .exc k
    | done m c' ps =>
      have f := hb m c' ps hr
      exact .done ⟨f.hist, suffix_tail_of_cons f.suf⟩

theorem callRuleG_tf {rec : SemG} (hrec : TagBalG rec) (name : String) (c : PState)
    (ps : List Pair) : TF c (callRuleG g rec name c ps) := by
  unfold callRuleG
  cases hl : g.lookup name with
  | none => exact .exc _
  | some r =>
    simp only []
    split
    · exact .exc _
    · exact ruleG_tf hrec r.name r.mod r.body c ps

def TFTry (c : PState) : TryG → Prop
  | .matched c' _ => TagFrame c c'
  | .no c1 _ => TagEq c c1
  | .stop r => ∀ m c' ps, r ≠ .done m c' ps

theorem tryTriviaG_tf {rec : SemG} (hrec : TagBalG rec) (on : Bool) (name : String) (c : PState)
    (ps : List Pair) : TFTry c (tryTriviaG g rec on name c ps) := by
  unfold tryTriviaG
  cases on with
  | false => exact TagEq.refl c
  | true =>
    simp only [Bool.not_true, Bool.false_eq_true, ↓reduceIte]
    have hp := callRuleG_tf (g := g) hrec name c.checkpoint ps
    cases hx : callRuleG g rec name c.checkpoint ps with
    | oof => intro m c' ps h; cases h
    | exc k => intro m c' ps h; cases h
    | done m c' ps' =>
      have f := hp m c' ps' hx
      cases m with
      | true => exact f.ok_after
      | false => exact f.restore_after

theorem triviaLoopG_tf {rec : SemG} (hrec : TagBalG rec) (hasWs hasCm : Bool) :
    ∀ (k : Nat) (c : PState) (ps : List Pair), TF c (triviaLoopG g rec hasWs hasCm k c ps) := by
  intro k
  induction k with
  | zero => intro c ps; simp only [triviaLoopG]; exact .oof
  | succ k ih =>
    intro c ps
    simp only [triviaLoopG]
    have h1 := tryTriviaG_tf (g := g) hrec hasWs "WHITESPACE" c ps
    cases hx : tryTriviaG g rec hasWs "WHITESPACE" c ps with
    | matched c' ps' =>
      rw [hx] at h1
      exact TF.mono h1 (ih c' _)
    | stop r =>
      rw [hx] at h1
      intro m c' ps h
      exact absurd h (h1 m c' ps)
    | no c1 ps1 =>
      rw [hx] at h1
      simp only []
      have h2 := tryTriviaG_tf (g := g) hrec hasCm "COMMENT" c1 ps1
      cases hy : tryTriviaG g rec hasCm "COMMENT" c1 ps1 with
      | matched c' ps' =>
        rw [hy] at h2
        exact TF.mono (h1.frame.trans h2) (ih c' _)
      | stop r =>
        rw [hy] at h2
        intro m c' ps h
        exact absurd h (h2 m c' ps)
      | no c2 ps2 =>
        rw [hy] at h2
        exact .done (h1.trans h2).frame

theorem parseTriviaG_tf {rec : SemG} (hrec : TagBalG rec) (k : Nat) (c : PState) (ps : List Pair) :
    TF c (parseTriviaG g rec k c ps) := by
  unfold parseTriviaG
  simp only []
  split
  · exact .done (.refl c)
  · split
    · exact .done (.refl c)
    · split
      · exact callRuleG_tf hrec "SKIP" c ps
      · have hl := triviaLoopG_tf (g := g) hrec (g.defines "WHITESPACE") (g.defines "COMMENT") k
          { c with suppress := true } ps
        cases hx : triviaLoopG g rec (g.defines "WHITESPACE") (g.defines "COMMENT") k { c with suppress := true } ps with
        | oof => exact .oof
        | exc kx => exact .exc kx
        | done m c' ps' =>
          have f := hl m c' ps' hx
          exact .done ⟨f.hist, f.suf⟩

theorem seqG_tf {rec : SemG} (hrec : TagBalG rec) (k : Nat) :
    ∀ (es : List Expr) (c : PState) (ps : List Pair), TF c (seqG g rec k es c ps) := by
  intro es
  induction es with
  | nil => intro c ps; simp only [seqG]; exact .done (.refl c)
  | cons e rest ih =>
    intro c ps
    simp only [seqG]
    cases he : rec e c ps with
    | oof => exact .oof
    | exc kx => exact .exc kx
    | done m c1 ps1 =>
      have a := hrec _ _ _ _ _ _ he
      cases m with
      | false => exact .done a
      | true =>
        simp only []
        by_cases hr : rest.isEmpty = true
        · simp only [hr, ↓reduceIte]; exact .done a
        · simp only [hr, Bool.false_eq_true, ↓reduceIte]
          have ht := parseTriviaG_tf (g := g) hrec k c1 ps1
          cases hx : parseTriviaG g rec k c1 ps1 with
          | oof => exact .oof
          | exc kx => exact .exc kx
          | done m2 c2 ps2 =>
            exact TF.mono (a.trans (ht m2 c2 ps2 hx)) (ih c2 _)

theorem choiceG_tf {rec : SemG} (hrec : TagBalG rec) :
    ∀ (es : List Expr) (c : PState) (ps : List Pair), TF c (choiceG rec es c ps) ∧
      ∀ c' ps', choiceG rec es c ps = .done false c' ps' → TagEq c c' := by
  intro es
  induction es with
  | nil =>
    intro c ps
    simp only [choiceG]
    refine ⟨.done (.refl c), ?_⟩
    intro c' ps' h
    simp only [RG.done.injEq, true_and] at h
    obtain ⟨rfl, _⟩ := h
    exact TagEq.refl _
  | cons e rest ih =>
    intro c ps
    simp only [choiceG]
    cases he : rec e c.checkpoint [] with
    | oof => exact ⟨.oof, fun _ _ h => by cases h⟩
    | exc kx => exact ⟨.exc kx, fun _ _ h => by cases h⟩
    | done m c1 tmp =>
      have a := hrec _ _ _ _ _ _ he
      cases m with
      | true =>
        refine ⟨.done a.ok_after, ?_⟩
        intro c' ps' h
        simp only [RG.done.injEq] at h
        exact absurd h.1 (by decide)
      | false =>
        simp only []
        have r := a.restore_after
        exact ⟨TF.mono r.frame (ih c1.restore ps).1,
          fun c' ps' h => r.trans ((ih c1.restore ps).2 c' ps' h)⟩

theorem repLoopG_tf {rec : SemG} (hrec : TagBalG rec) (e : Expr) (kk : Nat) :
    ∀ (k : Nat) (first : Bool) (c : PState) (ps : List Pair),
      TF c (repLoopG g rec e k kk first c ps) := by
  intro k
  induction k with
  | zero => intro first c ps; simp only [repLoopG]; exact .oof
  | succ k ih =>
    intro first c ps
    simp only [repLoopG]
    have hT : TF c.checkpoint
        (if first = true then RG.done true c.checkpoint [] else parseTriviaG g rec kk c.checkpoint []) := by
      by_cases hf : first = true
      · simp only [hf, ↓reduceIte]; exact .done (.refl _)
      · simp only [hf, Bool.false_eq_true, ↓reduceIte]
        exact parseTriviaG_tf hrec kk _ _
    cases hx : (if first = true then RG.done true c.checkpoint [] else parseTriviaG g rec kk c.checkpoint []) with
    | oof => exact .oof
    | exc kx => exact .exc kx
    | done m c1 tmp =>
      have a1 := hT m c1 tmp hx
      simp only []
      cases he : rec e c1 tmp with
      | oof => exact .oof
      | exc kx => exact .exc kx
      | done m2 c2 tmp' =>
        have a2 := a1.trans (hrec _ _ _ _ _ _ he)
        cases m2 with
        | true => exact TF.mono a2.ok_after (ih false c2.ok _)
        | false => exact .done a2.restore_after.frame

theorem step_tf {rec : SemG} (k : Nat) (hrec : TagBalG rec) : TagBalG (step g inp k rec) := by
  intro x c ps0 m c' ps
  suffices hpost : TF c (step g inp k rec x c ps0) from hpost m c' ps
  have hnil : ∀ {m : Bool} {d : PState} {ps : List Pair}, d.tagStack = c.tagStack →
      d.tagHist = c.tagHist → TF c (.done m d ps) := fun e1 e2 => .done (.of_eq e1 e2)
  cases x with
  | str s =>
    simp only [step]
    split
    · exact hnil rfl rfl
    · exact failT_tf c _
  | ci s =>
    simp only [step]
    split
    · exact hnil rfl rfl
    · exact failT_tf c _
  | range a b =>
    simp only [step]
    split
    · split
      · exact hnil rfl rfl
      · exact failT_tf c _
    · exact failT_tf c _
  | ident name tag =>
    simp only [step]
    exact withTagG_tf tag c (fun d => callRuleG_tf hrec name d ps0)
  | rule name mod sm body =>
    simp only [step]
    split
    · exact .exc _
    · exact fun m1 c1 ps1 h1 => hrec _ _ _ _ _ _ h1
  | seq es => exact seqG_tf hrec k es c ps0
  | choice es => exact (choiceG_tf hrec es c ps0).1
  | opt e =>
    simp only [step]
    cases he : rec e c.checkpoint [] with
    | oof => exact .oof
    | exc kx => exact .exc kx
    | done m1 c1 ps1 =>
      have a := hrec _ _ _ _ _ _ he
      cases m1 with
      | true => exact .done a.ok_after
      | false => exact .done a.restore_after.frame
  | rep e => exact repLoopG_tf hrec e k k true c ps0
  | rep1 e => exact seqG_tf hrec k _ c ps0
  | repExact e n => exact seqG_tf hrec k _ c ps0
  | repMin e n => exact seqG_tf hrec k _ c ps0
  | repMax e n => exact seqG_tf hrec k _ c ps0
  | repMinMax e m n => exact seqG_tf hrec k _ c ps0
  | andP e =>
    simp only [step]
    cases he : rec e c.checkpoint [] with
    | oof => exact .oof
    | exc kx => exact .exc kx
    | done m1 c1 ps1 =>
      have a := hrec _ _ _ _ _ _ he
      exact .done a.restore_after.frame
  | notP e =>
    simp only [step]
    cases he : rec e { c.checkpoint with negDepth := c.checkpoint.negDepth + 1 } [] with
    | oof => exact .oof
    | exc kx => exact .exc kx
    | done m1 c1 ps1 =>
      have a' := hrec _ _ _ _ _ _ he
      have a : TagFrame c.checkpoint c1 := ⟨a'.hist, a'.suf⟩
      have r := a.restore_after
      simp only []
      cases m1 with
      | false =>
        simp only [Bool.false_eq_true, ↓reduceIte]
        exact .done (.of_eq r.stack r.hist)
      | true =>
        simp only [↓reduceIte]
        cases hf : c1.restore.fail (L1.failedName e) true with
        | none => exact .exc _
        | some c3 =>
          simp only []
          exact .done (.of_eq ((fail_tags hf).1.trans r.stack) ((fail_tags hf).2.trans r.hist))
  | group e tag =>
    simp only [step]
    exact withTagG_tf tag c (fun d m1 c1 ps1 h1 => hrec _ _ _ _ _ _ h1)
  | push e =>
    simp only [step]
    cases he : rec e c ps0 with
    | oof => exact .oof
    | exc kx => exact .exc kx
    | done m1 c1 ps1 =>
      have a := hrec _ _ _ _ _ _ he
      cases m1 with
      | true => exact .done ⟨a.hist, a.suf⟩
      | false => exact .done a
  | pushLit s => simp only [step]; exact hnil rfl rfl
  | peekSlice a b =>
    simp only [step]
    split
    · exact hnil rfl rfl
    · exact failT_tf c _
  | peek =>
    simp only [step]
    split
    · exact hnil rfl rfl
    · split
      · exact hnil rfl rfl
      · exact failT_tf c _
  | peekAll =>
    simp only [step]
    split
    · exact hnil rfl rfl
    · exact failT_tf c _
  | pop =>
    simp only [step]
    split
    · exact hnil rfl rfl
    · split
      · split
        · exact hnil rfl rfl
        · exact .exc _
      · exact failT_tf c _
  | popAll =>
    simp only [step]
    split
    · exact hnil rfl rfl
    · exact failT_tf c _
  | drop =>
    simp only [step]
    split
    · exact hnil rfl rfl
    · exact failT_tf c _
  | anyB =>
    simp only [step]
    split
    · exact hnil rfl rfl
    · exact hnil rfl rfl
  | soiB => simp only [step]; exact hnil rfl rfl
  | eoiB => simp only [step]; exact hnil rfl rfl
  | uprop n =>
    simp only [step]
    split
    · split
      · exact hnil rfl rfl
      · exact hnil rfl rfl
    · exact hnil rfl rfl
  | skipUntil subs => simp only [step]; exact hnil rfl rfl
  | optChoice alts star =>
    simp only [step]
    split
    · exact hnil rfl rfl
    · exact hnil rfl rfl

theorem run_tf (g : Grammar) : ∀ n, TagBalG (run g inp n) := by
  intro n
  induction n with
  | zero => intro x c ps0 m c' ps h; simp [run] at h
  | succ n ih => exact step_tf inp n ih

end LG

end Pest
