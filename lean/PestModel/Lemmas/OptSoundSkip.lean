/-
  Lemmas/OptSoundSkip.lean — the `skip` pass: `(!(a | b | …) ~ ANY)*`  ↦  `SkipUntil [a, b, …]`.

  * `collect_sem`: what `_skip` collects from the operand of the negative predicate is exactly
    the set of strings one of which the operand matches.
  * `skipSem`: the semantic lemma `SkipSem`, from states inside the input in which implicit
    trivia is the identity.
  * `skipPass_TR`: the builder.
-/
import PestModel.Lemmas.OptSoundRun

set_option linter.unusedVariables false

namespace Pest
namespace OptS

open L0

variable (G : Grammar) (inp : Input)

/-! ### implicit trivia is the identity -/

theorem skip_id (rec : Sem0) (k : Nat) (s : S0) (h : s.atomic = true ∨ NoTrivia G) :
    skip G rec k s = .ok s [] := by
  rcases h with h | ⟨h1, h2, h3⟩
  · simp [skip, h]
  · unfold skip
    by_cases ha : s.atomic = true
    · simp [ha]
    · simp [ha, h1, h2, h3]

/-! ### what `_skip` collects -/

/-- success / failure of a result -/
def okOf : R0 → Option Bool
  | .ok _ _ => some true
  | .fail => some false
  | _ => none

/-- some collected string matches at `pos` -/
def anyAt (subs : List Str) (pos : Nat) : Bool := subs.any (startsWithAt inp · pos)

theorem foldl_none {α β : Type} (f : β → α → Option β) : ∀ (l : List α),
    l.foldl (fun acc x => acc.bind fun s => f s x) (none : Option β) = none
  | [] => rfl
  | _ :: l => by simpa using foldl_none f l

theorem conv_ruleApply {name : String} {mod : Nat} {body : Expr} {s : S0} {r : R0} {b : Bool}
    (h : Conv G inp body { s with atomic := ruleAtomic name mod s.atomic } r) (hr : okOf r = some b) :
    ∃ n r', ruleApply (run G inp n) name mod body s = r' ∧ okOf r' = some b := by
  obtain ⟨n, hn, _⟩ := h
  refine ⟨n, _, rfl, ?_⟩
  unfold ruleApply
  rw [hn]
  cases r with
  | ok s' ps => simp only [ruleWrap]; split <;> exact hr
  | fail => exact hr
  | oof => simp [okOf] at hr
  | stuck => simp [okOf] at hr

theorem okOf_ne_oof {r : R0} {b : Bool} (h : okOf r = some b) : r ≠ .oof := by
  intro e; rw [e] at h; simp [okOf] at h

theorem collect_sem : ∀ (k : Nat) (e : Expr) (acc subs : List Str),
    Opt.skipCollect G.rules k e acc = some subs →
    ∃ new, subs = acc ++ new ∧
      ∀ s : S0, ∃ r, Conv G inp e s r ∧ okOf r = some (anyAt inp new s.pos) := by
  intro k
  induction k with
  | zero => intro e acc subs h; simp [Opt.skipCollect] at h
  | succ k ih =>
    -- the alternatives of a `Choice`
    have hlist : ∀ (es : List Expr) (acc subs : List Str),
        es.foldl (fun a x => a.bind fun s => Opt.skipCollect G.rules k x s) (some acc) = some subs →
        ∃ new, subs = acc ++ new ∧
          ∀ s : S0, ∃ n r, choiceL (run G inp n) es s = r ∧ okOf r = some (anyAt inp new s.pos) := by
      intro es
      induction es with
      | nil =>
        intro acc subs h
        simp only [List.foldl_nil, Option.some.injEq] at h
        subst h
        exact ⟨[], by simp, fun s => ⟨0, _, rfl, rfl⟩⟩
      | cons x rest ihl =>
        intro acc subs h
        simp only [List.foldl_cons, Option.bind_some] at h
        cases hx : Opt.skipCollect G.rules k x acc with
        | none => rw [hx, foldl_none] at h; exact absurd h (by simp)
        | some acc1 =>
          rw [hx] at h
          obtain ⟨new1, e1, s1⟩ := ih x acc acc1 hx
          obtain ⟨new2, e2, s2⟩ := ihl acc1 subs h
          refine ⟨new1 ++ new2, by rw [e2, e1, List.append_assoc], fun s => ?_⟩
          obtain ⟨r1, ⟨n1, hn1, hr1⟩, ho1⟩ := s1 s
          obtain ⟨n2, r2, hn2, ho2⟩ := s2 s
          have hx1 : run G inp (n1 + n2) x s = r1 := Conv.mono G inp hn1 hr1 (by omega)
          have hx2 : choiceL (run G inp (n1 + n2)) rest s = r2 := by
            rw [choiceL_ext (run_mono G inp (by omega : n2 ≤ n1 + n2)) rest s (by rw [hn2]; exact okOf_ne_oof ho2), hn2]
          refine ⟨n1 + n2, _, rfl, ?_⟩
          simp only [choiceL, hx1, anyAt, List.any_append]
          cases r1 with
          | ok s' ps =>
            simp only [okOf, Option.some.injEq] at ho1 ⊢
            simp only [anyAt] at ho1
            rw [← ho1]; rfl
          | fail =>
            simp only [okOf, Option.some.injEq] at ho1
            simp only [anyAt] at ho1 ho2
            rw [hx2, ho2, ← ho1]; rfl
          | oof => simp [okOf] at ho1
          | stuck => simp [okOf] at ho1
    -- the node after stripping one `Group`
    have hcore : ∀ (x : Expr) (acc subs : List Str),
        (match x with
          | .choice es => es.foldl (fun acc y => acc.bind fun s => Opt.skipCollect G.rules k y s) (some acc)
          | .skipUntil _ => none
          | .str s => some (acc ++ [s])
          | .ident n _ =>
            match G.rules.find? (·.name == n) with
            | some r => Opt.skipCollect G.rules k r.body acc
            | none => none
          | _ => none) = some subs →
        ∃ new, subs = acc ++ new ∧
          ∀ s : S0, ∃ r, Conv G inp x s r ∧ okOf r = some (anyAt inp new s.pos) := by
      intro x acc subs h
      · cases x with
        | choice es =>
          simp only [] at h
          obtain ⟨new, e1, s1⟩ := hlist es acc subs h
          refine ⟨new, e1, fun s => ?_⟩
          obtain ⟨n, r, hn, ho⟩ := s1 s
          exact ⟨r, ⟨n + 1, hn, okOf_ne_oof ho⟩, ho⟩
        | skipUntil ss => simp at h
        | str s0 =>
          simp only [Option.some.injEq] at h
          refine ⟨[s0], h.symm, fun s => ⟨_, ⟨1, rfl, ?_⟩, ?_⟩⟩
          · simp only [run, step]; split <;> simp
          · simp only [run, step, anyAt, List.any_cons, List.any_nil, Bool.or_false]
            by_cases hm : startsWithAt inp s0 s.pos = true <;> simp [hm, okOf]
        | ident n t =>
          simp only [] at h
          cases hl : G.rules.find? (·.name == n) with
          | none => rw [hl] at h; exact absurd h (by simp)
          | some rl =>
            rw [hl] at h
            simp only [] at h
            have hl' : G.lookup n = some rl := hl
            obtain ⟨new, e1, s1⟩ := ih rl.body acc subs h
            refine ⟨new, e1, fun s => ?_⟩
            obtain ⟨r, hc, ho⟩ := s1 { s with atomic := ruleAtomic rl.name rl.mod s.atomic }
            obtain ⟨m, r', hm, ho'⟩ := conv_ruleApply G inp hc ho
            refine ⟨r', ⟨m + 1, ?_, okOf_ne_oof ho'⟩, ho'⟩
            show callRule G (run G inp m) n s = r'
            unfold callRule
            rw [hl']
            exact hm
        | _ => simp at h
    intro e acc subs h
    simp only [Opt.skipCollect] at h
    cases e with
    | group x t =>
      obtain ⟨new, e1, s1⟩ := hcore x acc subs h
      refine ⟨new, e1, fun s => ?_⟩
      obtain ⟨r, ⟨n, hn, hr⟩, ho⟩ := s1 s
      exact ⟨r, ⟨n + 1, hn, hr⟩, ho⟩
    | choice es => exact hcore _ acc subs h
    | skipUntil ss => exact hcore _ acc subs h
    | str s0 => exact hcore _ acc subs h
    | ident n t => exact hcore _ acc subs h
    | _ => simp at h

/-! ### `SkipUntil.parse`, characterised -/

def supStep (pos : Nat) (b : Option Nat) (s : Str) : Option Nat :=
  match findFrom inp s pos with
  | some p => (match b with | none => some p | some q => if p < q then some p else some q)
  | none => b

theorem skipUntilPos_eq (subs : List Str) (pos : Nat) :
    L1.skipUntilPos inp subs pos = (subs.foldl (supStep inp pos) none).getD inp.size := rfl

theorem findFrom_here {sub : Str} {pos : Nat} (h : startsWithAt inp sub pos = true) :
    findFrom inp sub pos = some pos := by
  have hs := swa_size inp sub pos h
  unfold findFrom
  have : ¬ pos > inp.size := by omega
  simp only [this, ↓reduceIte]
  obtain ⟨k, hk⟩ : ∃ k, inp.size + 1 - pos = k + 1 := ⟨inp.size - pos, by omega⟩
  rw [hk]
  simp [findFrom.go, h]

theorem findFrom_next {sub : Str} {pos : Nat} (h : startsWithAt inp sub pos = false) (hp : pos < inp.size) :
    findFrom inp sub pos = findFrom inp sub (pos + 1) := by
  unfold findFrom
  have h1 : ¬ pos > inp.size := by omega
  have h2 : ¬ pos + 1 > inp.size := by omega
  simp only [h1, h2, ↓reduceIte]
  obtain ⟨k, hk⟩ : ∃ k, inp.size + 1 - pos = k + 1 := ⟨inp.size - pos, by omega⟩
  have hk' : inp.size + 1 - (pos + 1) = k := by omega
  rw [hk, hk']
  simp [findFrom.go, h]

theorem findFrom_end {sub : Str} (h : startsWithAt inp sub inp.size = false) :
    findFrom inp sub inp.size = none := by
  unfold findFrom
  simp [findFrom.go, h]

theorem sup_fold_none (pos : Nat) : ∀ (subs : List Str) (b : Option Nat),
    (∀ sub ∈ subs, findFrom inp sub pos = none) → subs.foldl (supStep inp pos) b = b
  | [], _, _ => rfl
  | s :: rest, b, h => by
    simp only [List.foldl_cons, supStep, h s List.mem_cons_self]
    exact sup_fold_none pos rest b (fun x hx => h x (List.mem_cons_of_mem _ hx))

theorem sup_fold_here (pos : Nat) : ∀ (subs : List Str), subs.foldl (supStep inp pos) (some pos) = some pos
  | [] => rfl
  | s :: rest => by
    simp only [List.foldl_cons, supStep]
    cases hf : findFrom inp s pos with
    | none => exact sup_fold_here pos rest
    | some p =>
      have := (findFrom_le inp s pos p hf).1
      have hlt : ¬ p < pos := by omega
      simp only [hlt, ↓reduceIte]
      exact sup_fold_here pos rest

theorem sup_fold_found (pos : Nat) : ∀ (subs : List Str) (b : Option Nat),
    (∃ sub ∈ subs, findFrom inp sub pos = some pos) → (∀ q, b = some q → pos ≤ q) →
    subs.foldl (supStep inp pos) b = some pos
  | [], _, h, _ => by obtain ⟨_, hm, _⟩ := h; simp at hm
  | s :: rest, b, h, hb => by
    simp only [List.foldl_cons]
    by_cases hs : findFrom inp s pos = some pos
    · have : supStep inp pos b s = some pos := by
        simp only [supStep, hs]
        cases b with
        | none => rfl
        | some q =>
          have := hb q rfl
          simp only []
          by_cases hlt : pos < q
          · simp [hlt]
          · simp only [hlt, ↓reduceIte]; congr; omega
      rw [this]; exact sup_fold_here inp pos rest
    · obtain ⟨sub, hm, hf⟩ := h
      have hm' : sub ∈ rest := by
        rcases List.mem_cons.1 hm with rfl | h'
        · exact absurd hf hs
        · exact h'
      refine sup_fold_found pos rest _ ⟨sub, hm', hf⟩ ?_
      intro q hq
      simp only [supStep] at hq
      cases hf2 : findFrom inp s pos with
      | none => rw [hf2] at hq; exact hb q hq
      | some p =>
        rw [hf2] at hq
        have hp := (findFrom_le inp s pos p hf2).1
        cases b with
        | none => simp only [Option.some.injEq] at hq; omega
        | some q0 =>
          have := hb q0 rfl
          simp only [] at hq
          split at hq <;> simp only [Option.some.injEq] at hq <;> omega

theorem sup_fold_congr (pos pos' : Nat) : ∀ (subs : List Str) (b : Option Nat),
    (∀ sub ∈ subs, findFrom inp sub pos = findFrom inp sub pos') →
    subs.foldl (supStep inp pos) b = subs.foldl (supStep inp pos') b
  | [], _, _ => rfl
  | s :: rest, b, h => by
    simp only [List.foldl_cons]
    have : supStep inp pos b s = supStep inp pos' b s := by
      simp only [supStep, h s List.mem_cons_self]
    rw [this]
    exact sup_fold_congr pos pos' rest _ (fun x hx => h x (List.mem_cons_of_mem _ hx))

/-- a collected string matches here: `SkipUntil` stays -/
theorem sup_here {subs : List Str} {pos : Nat} (h : anyAt inp subs pos = true) :
    L1.skipUntilPos inp subs pos = pos := by
  rw [skipUntilPos_eq]
  simp only [anyAt, List.any_eq_true] at h
  obtain ⟨sub, hm, hs⟩ := h
  rw [sup_fold_found inp pos subs none ⟨sub, hm, findFrom_here inp hs⟩ (by intro q hq; cases hq)]
  rfl

/-- nothing matches here and there is a next character: `SkipUntil` is `SkipUntil` from there -/
theorem sup_next {subs : List Str} {pos : Nat} (h : anyAt inp subs pos = false) (hp : pos < inp.size) :
    L1.skipUntilPos inp subs pos = L1.skipUntilPos inp subs (pos + 1) := by
  rw [skipUntilPos_eq, skipUntilPos_eq]
  simp only [anyAt, List.any_eq_false] at h
  rw [sup_fold_congr inp pos (pos + 1) subs none (fun sub hm => findFrom_next inp (by simpa using h sub hm) hp)]

/-- nothing matches at the end of the input: `SkipUntil` stays there -/
theorem sup_end {subs : List Str} (h : anyAt inp subs inp.size = false) :
    L1.skipUntilPos inp subs inp.size = inp.size := by
  rw [skipUntilPos_eq]
  simp only [anyAt, List.any_eq_false] at h
  rw [sup_fold_none inp inp.size subs none (fun sub hm => findFrom_end inp (by simpa using h sub hm))]
  rfl

/-! ### the loop `(!inner ~ ANY)*` -/

/-- one round of `!inner ~ ANY` -/
def resB (subs : List Str) (s : S0) : R0 :=
  if !anyAt inp subs s.pos && decide (s.pos < inp.size) then .ok (adv s 1) [] else .fail

theorem any_run {m : Nat} {sm : Bool} (hsil : hasBit m SILENT = true) (i : Nat) (s : S0) :
    run G inp (i + 2) (.rule "ANY" m sm .anyB) s =
      (if s.pos < inp.size then .ok (adv s 1) [] else .fail) := by
  show ruleApply (run G inp (i + 1)) "ANY" m .anyB s = _
  unfold ruleApply
  simp only [run, step]
  by_cases h : s.pos < inp.size
  · simp [h, ruleWrap, hsil, adv]
  · simp [h]

theorem body_run {inner : Expr} {m : Nat} {sm : Bool} {t : Option String} {subs : List Str} {a : Bool}
    (hsil : hasBit m SILENT = true) (hflag : a = true ∨ NoTrivia G)
    (hin : ∀ s : S0, ∃ r, Conv G inp inner s r ∧ okOf r = some (anyAt inp subs s.pos))
    (s : S0) (ha : s.atomic = a) :
    Evt (fun n => run G inp n (.group (.seq [.notP inner, .rule "ANY" m sm .anyB]) t) s = resB inp subs s) := by
  obtain ⟨r, ⟨n1, hn1, hr1⟩, ho⟩ := hin s
  refine ⟨n1 + 4, fun n hn => ?_⟩
  obtain ⟨i, rfl⟩ : ∃ i, n = i + 4 := ⟨n - 4, by omega⟩
  have hi : run G inp (i + 1) inner s = r := Conv.mono G inp hn1 hr1 (by omega)
  have hid : skip G (run G inp (i + 2)) (i + 2) s = .ok s [] :=
    skip_id G _ _ s (by rcases hflag with h | h; exact Or.inl (by rw [ha, h]); exact Or.inr h)
  show seqL G (run G inp (i + 2)) (i + 2) [.notP inner, .rule "ANY" m sm .anyB] s [] = _
  have hstep : run G inp (i + 2) (.notP inner) s = step G inp (i + 1) (run G inp (i + 1)) (.notP inner) s := rfl
  simp only [seqL, hstep, step, hi]
  cases r with
  | ok s' ps =>
    simp only [okOf, Option.some.injEq] at ho
    simp [resB, ← ho]
  | fail =>
    simp only [okOf, Option.some.injEq] at ho
    simp only [List.isEmpty_cons, Bool.false_eq_true, ↓reduceIte, hid, any_run G inp hsil i s, resB, ← ho,
      Bool.not_false, Bool.true_and]
    by_cases h : s.pos < inp.size
    · simp [h]
    · simp [h]
  | oof => exact absurd rfl hr1
  | stuck => simp [okOf] at ho

theorem loop_run {B : Expr} {subs : List Str} {a : Bool} (hflag : a = true ∨ NoTrivia G)
    (hB : ∀ s : S0, s.atomic = a → Evt (fun n => run G inp n B s = resB inp subs s)) :
    ∀ (d : Nat) (s : S0), s.atomic = a → s.pos ≤ inp.size → inp.size - s.pos ≤ d →
      Evt2 (fun n k => ∀ (first : Bool) (acc : List Pair),
        repLoop G (run G inp n) B k n first s acc
          = .ok { s with pos := L1.skipUntilPos inp subs s.pos } acc) := by
  have hid : ∀ (n : Nat) (s : S0) (first : Bool), s.atomic = a →
      (if first = true then R0.ok s [] else skip G (run G inp n) n s) = R0.ok s [] := by
    intro n s first ha
    cases first
    · simp only [Bool.false_eq_true, ↓reduceIte]
      exact skip_id G _ _ s (by rcases hflag with h | h; exact Or.inl (by rw [ha, h]); exact Or.inr h)
    · rfl
  -- the round fails: the loop stops here
  have hstop : ∀ (s : S0), s.atomic = a → s.pos ≤ inp.size →
      (anyAt inp subs s.pos = true ∨ s.pos = inp.size) →
      Evt2 (fun n k => ∀ (first : Bool) (acc : List Pair),
        repLoop G (run G inp n) B k n first s acc
          = .ok { s with pos := L1.skipUntilPos inp subs s.pos } acc) := by
    intro s ha hp hcase
    obtain ⟨N, hN⟩ := hB s ha
    have hres : resB inp subs s = .fail := by
      unfold resB
      rcases hcase with h | h
      · simp [h]
      · simp [h]
    have hpos : L1.skipUntilPos inp subs s.pos = s.pos := by
      by_cases h : anyAt inp subs s.pos = true
      · exact sup_here inp h
      · rcases hcase with h' | h'
        · exact absurd h' h
        · rw [h']; exact sup_end inp (by rw [← h']; simpa using h)
    refine ⟨N + 1, fun n k hn hk first acc => ?_⟩
    obtain ⟨k', rfl⟩ : ∃ k', k = k' + 1 := ⟨k - 1, by omega⟩
    simp only [repLoop, hid n s first ha, hN n (by omega), hres, hpos]
  intro d
  induction d with
  | zero =>
    intro s ha hp hd
    exact hstop s ha hp (Or.inr (by omega))
  | succ d ih =>
    intro s ha hp hd
    by_cases hcase : anyAt inp subs s.pos = true ∨ s.pos = inp.size
    · exact hstop s ha hp hcase
    · simp only [not_or, Bool.not_eq_true] at hcase
      have hlt : s.pos < inp.size := by omega
      obtain ⟨N, hN⟩ := hB s ha
      have hres : resB inp subs s = .ok (adv s 1) [] := by
        unfold resB; simp [hcase.1, hlt]
      obtain ⟨N2, hN2⟩ := ih (adv s 1) ha (by simp only [adv]; omega) (by simp only [adv]; omega)
      refine ⟨N + N2 + 1, fun n k hn hk first acc => ?_⟩
      obtain ⟨k', rfl⟩ : ∃ k', k = k' + 1 := ⟨k - 1, by omega⟩
      simp only [repLoop, hid n s first ha, hN n (by omega), hres, List.append_nil]
      rw [hN2 n k' (by omega) (by omega) false acc, sup_next inp hcase.1 hlt]
      rfl

/-- **`skip` is sound** (from states inside the input in which implicit trivia is off) -/
theorem skipSem : SkipSem G := by
  intro inp a e subs s hpat ha hp
  obtain ⟨inner, anyN, t, x, k, he, ⟨m, sm, hany, hsil⟩, hx, hcol, hflag⟩ := hpat
  subst he hany
  obtain ⟨new, e1, s1⟩ := collect_sem G inp k x [] subs hcol
  simp only [List.nil_append] at e1
  subst e1
  have hin : ∀ s : S0, ∃ r, Conv G inp inner s r ∧ okOf r = some (anyAt inp subs s.pos) := by
    rcases hx with rfl | ⟨n, m', sm', rfl⟩
    · exact s1
    · intro s
      obtain ⟨r, hc, ho⟩ := s1 { s with atomic := ruleAtomic n m' s.atomic }
      obtain ⟨j, r', hj, ho'⟩ := conv_ruleApply G inp hc ho
      exact ⟨r', ⟨j + 1, hj, okOf_ne_oof ho'⟩, ho'⟩
  obtain ⟨N, hN⟩ := loop_run G inp hflag (fun s ha => body_run G inp hsil hflag hin s ha)
    (inp.size - s.pos) s ha hp (Nat.le_refl _)
  refine ⟨N + 1, ?_, by simp⟩
  show repLoop G (run G inp N) _ N N true s [] = _
  exact hN N N (Nat.le_refl _) (Nat.le_refl _) true []

/-! ### the builder -/

theorem skipPass_cases (rules : List Rule) (fuel : Nat) (e : Expr) :
    Opt.skipPass rules fuel e = e ∨
    ∃ inner right t x subs, e = .rep (.group (.seq [.notP inner, right]) t) ∧
      (Opt.isAnyNode right = true ∨ ∃ tg, right = .ident "ANY" tg) ∧
      (x = inner ∨ ∃ n m sm, inner = .rule n m sm x) ∧
      Opt.skipCollect rules fuel x [] = some subs ∧ Opt.skipPass rules fuel e = .skipUntil subs := by
  unfold Opt.skipPass
  split
  · rename_i inner right t
    split
    · rename_i n m sm body
      split
      · rename_i hany
        split
        · rename_i subs hc
          exact Or.inr ⟨_, _, _, body, subs, rfl, Or.inl hany, Or.inr ⟨_, _, _, rfl⟩, hc, rfl⟩
        · exact Or.inl rfl
      · split
        · rename_i tg
          split
          · rename_i subs hc
            exact Or.inr ⟨_, _, _, _, subs, rfl, Or.inr ⟨_, rfl⟩, Or.inl rfl, hc, rfl⟩
          · exact Or.inl rfl
        · exact Or.inl rfl
    · dsimp only
      have key : ∀ (c : Bool), (c = true → Opt.isAnyNode right = true ∨ ∃ tg, right = .ident "ANY" tg) →
          ((if c = true then
              match Opt.skipCollect rules fuel inner [] with
              | some subs => Expr.skipUntil subs
              | none => ((Expr.seq [inner.notP, right]).group t).rep
            else ((Expr.seq [inner.notP, right]).group t).rep) =
            ((Expr.seq [inner.notP, right]).group t).rep ∨
          ∃ inner_1 right_1 t_1 x subs,
            ((Expr.seq [inner.notP, right]).group t).rep = ((Expr.seq [inner_1.notP, right_1]).group t_1).rep ∧
              (Opt.isAnyNode right_1 = true ∨ ∃ tg, right_1 = Expr.ident "ANY" tg) ∧
                (x = inner_1 ∨ ∃ n m sm, inner_1 = Expr.rule n m sm x) ∧
                  Opt.skipCollect rules fuel x [] = some subs ∧
                    (if c = true then
                        match Opt.skipCollect rules fuel inner [] with
                        | some subs => Expr.skipUntil subs
                        | none => ((Expr.seq [inner.notP, right]).group t).rep
                      else ((Expr.seq [inner.notP, right]).group t).rep) =
                      Expr.skipUntil subs) := by
        intro c hc
        cases c with
        | false => exact Or.inl rfl
        | true =>
          simp only [↓reduceIte]
          cases hcol : Opt.skipCollect rules fuel inner [] with
          | none => exact Or.inl rfl
          | some subs => exact Or.inr ⟨_, _, _, _, subs, rfl, hc rfl, Or.inl rfl, hcol, rfl⟩
      apply key
      intro hok
      simp only [Bool.or_eq_true] at hok
      rcases hok with h | h
      · exact Or.inl h
      · right
        split at h
        · exact ⟨_, rfl⟩
        · simp at h
  · exact Or.inl rfl

theorem isAnyNode_inv {right : Expr} (h : Opt.isAnyNode right = true) :
    ∃ m sm b, right = .rule "ANY" m sm b := by
  unfold Opt.isAnyNode at h
  split at h
  · exact ⟨_, _, _, rfl⟩
  · simp at h

variable {F : Feat} {sg : String → Option (String × Nat)}

theorem TR.skipUntil_inv {a : Bool} {subs : List Str} {x' : Expr} (h : TR F G a (.skipUntil subs) x') :
    x' = .skipUntil subs := by
  cases h with
  | term _ => rfl
  | skip _ hpat =>
    obtain ⟨_, _, _, _, _, he, _⟩ := hpat
    cases he

theorem skipPass_TR (hF : F.skip = true) {a : Bool} (hflag : a = true ∨ NoTrivia G) (k : Nat) (e : Expr)
    (he : AllN (NodeOK sg) e) :
    TR F G a e (Opt.mapTopDown (Opt.skipPass G.rules 200) k e) := by
  refine topDown_TR (Opt.skipPass G.rules 200) a (fun e => AllN (NodeOK sg) e)
    ?_ (fun x hx => fun c hc => AllN.children hx c hc)
    (fun n m sm b h => nodeOK_ra h.1 a) ?_ k e he
  · intro e he
    rcases skipPass_cases G.rules 200 e with h | ⟨_, _, _, _, subs, _, _, _, _, hres⟩
    · rw [h]; exact he
    · rw [hres]; exact trivial
  · intro e x' he htr
    rcases skipPass_cases G.rules 200 e with h | ⟨inner, right, t, x, subs, hshape, hany, hx, hcol, hres⟩
    · rw [h] at htr; exact htr
    · rw [hres] at htr
      have := TR.skipUntil_inv G htr
      subst this
      subst hshape
      -- the well-formedness of the `ANY` node
      have hseq := he.2.2.2
      have hright : AllN (NodeOK sg) right := hseq.2.1
      refine .skip hF ⟨inner, right, t, x, 200, rfl, ?_, hx, hcol, hflag⟩
      rcases hany with hany | ⟨tg, rfl⟩
      · obtain ⟨m, sm, b, rfl⟩ := isAnyNode_inv hany
        have hn : NodeOK sg (.rule "ANY" m sm b) := hright.1
        simp only [NodeOK] at hn
        have hb := hn.2.2.2.2.2.2.2.2 trivial
        subst hb
        exact ⟨m, sm, rfl, hn.2.2.2.2.2.1 (by decide)⟩
      · have hn : NodeOK sg (.ident "ANY" tg) := hright
        exact absurd rfl hn.1

end OptS
end Pest
