/-
  Lemmas/OptSoundPrim.lean — the primitive matchers stay inside the input.
-/
import PestModel.Spec

namespace Pest
namespace OptS

variable (inp : Input)

theorem getElem?_lt {p x : Nat} (h : inp[p]? = some x) : p < inp.size :=
  (Array.getElem?_eq_some_iff.mp h).1

theorem swa_size : ∀ (s : Str) (pos : Nat), startsWithAt inp s pos = true → pos + s.length ≤ inp.size
  | [], pos, h => by simpa [startsWithAt] using h
  | c :: rest, pos, h => by
    simp only [startsWithAt, Bool.and_eq_true] at h
    have := swa_size rest (pos + 1) h.2
    simp only [List.length_cons]; omega

theorem swaCI_size : ∀ (s : Str) (pos : Nat), startsWithAtCI inp s pos = true → pos + s.length ≤ inp.size
  | [], pos, h => by simpa [startsWithAtCI] using h
  | c :: rest, pos, h => by
    simp only [startsWithAtCI, Bool.and_eq_true] at h
    have := swaCI_size rest (pos + 1) h.2
    simp only [List.length_cons]; omega

theorem matchAll_le : ∀ (ls : List Str) (p q : Nat), L1.matchAll inp ls p = some q →
    p ≤ q ∧ (p ≤ inp.size → q ≤ inp.size)
  | [], p, q, h => by
    simp only [L1.matchAll, Option.some.injEq] at h; subst h; exact ⟨Nat.le_refl _, id⟩
  | l :: ls, p, q, h => by
    simp only [L1.matchAll] at h
    by_cases hm : startsWithAt inp l p = true
    · simp only [hm, ↓reduceIte] at h
      have h1 := swa_size inp l p hm
      have h2 := matchAll_le ls (p + l.length) q h
      exact ⟨by omega, fun _ => h2.2 h1⟩
    · simp [hm] at h

theorem findFrom_go_le (s : Str) : ∀ (k p q : Nat), findFrom.go inp s k p = some q →
    p ≤ q ∧ q ≤ inp.size ∧ startsWithAt inp s q = true := by
  intro k
  induction k with
  | zero => intro p q h; simp [findFrom.go] at h
  | succ k ih =>
    intro p q h
    simp only [findFrom.go] at h
    by_cases hm : startsWithAt inp s p = true
    · simp only [hm, ↓reduceIte, Option.some.injEq] at h
      subst h
      have := swa_size inp s p hm
      exact ⟨Nat.le_refl _, by omega, hm⟩
    · simp only [hm, Bool.false_eq_true, ↓reduceIte] at h
      have := ih (p + 1) q h
      exact ⟨by omega, this.2⟩

theorem findFrom_le (s : Str) (p q : Nat) (h : findFrom inp s p = some q) :
    p ≤ q ∧ q ≤ inp.size ∧ startsWithAt inp s q = true := by
  unfold findFrom at h
  by_cases hp : p > inp.size
  · simp [hp] at h
  · simp only [hp, ↓reduceIte] at h
    exact findFrom_go_le inp s _ p q h

theorem skipUntil_fold_le (p : Nat) : ∀ (subs : List Str) (b : Option Nat),
    (∀ q, b = some q → p ≤ q ∧ q ≤ inp.size) →
    ∀ q, subs.foldl (fun (b : Option Nat) s =>
      match findFrom inp s p with
      | some p => (match b with | none => some p | some q => if p < q then some p else some q)
      | none => b) b = some q → p ≤ q ∧ q ≤ inp.size := by
  intro subs
  induction subs with
  | nil => intro b hb q h; exact hb q h
  | cons s rest ih =>
    intro b hb q h
    simp only [List.foldl_cons] at h
    refine ih _ ?_ q h
    intro q' hq'
    cases hf : findFrom inp s p with
    | none => rw [hf] at hq'; exact hb q' hq'
    | some r =>
      rw [hf] at hq'
      have hr := findFrom_le inp s p r hf
      cases b with
      | none => simp only [Option.some.injEq] at hq'; subst hq'; exact ⟨hr.1, hr.2.1⟩
      | some q0 =>
        simp only [] at hq'
        by_cases hlt : r < q0
        · simp only [hlt, ↓reduceIte, Option.some.injEq] at hq'; subst hq'; exact ⟨hr.1, hr.2.1⟩
        · simp only [hlt, ↓reduceIte, Option.some.injEq] at hq'; subst hq'; exact hb _ rfl

theorem skipUntilPos_le (subs : List Str) (p : Nat) (hp : p ≤ inp.size) :
    p ≤ L1.skipUntilPos inp subs p ∧ L1.skipUntilPos inp subs p ≤ inp.size := by
  unfold L1.skipUntilPos
  simp only []
  have h := skipUntil_fold_le inp p subs none (by intro q h; cases h)
  revert h
  generalize subs.foldl _ none = best
  intro h
  cases best with
  | none => exact ⟨hp, Nat.le_refl _⟩
  | some q => exact h q rfl

variable (g : Grammar)

theorem optMatchOnce_le (alts : List Alt) (p q : Nat) (h : L1.optMatchOnce g inp alts p = some q) :
    p ≤ q ∧ q ≤ inp.size := by
  unfold L1.optMatchOnce at h
  simp only [] at h
  split at h
  · rename_i s hs
    simp only [Option.some.injEq] at h; subst h
    have := swa_size inp s p (by simpa using List.find?_some hs)
    exact ⟨by omega, this⟩
  · split at h
    · rename_i s hs
      simp only [Option.some.injEq] at h; subst h
      have := swaCI_size inp s p (by simpa using List.find?_some hs)
      exact ⟨by omega, this⟩
    · split at h
      · cases h
      · rename_i c hc
        have := getElem?_lt inp hc
        split at h
        · simp only [Option.some.injEq] at h; subst h; exact ⟨by omega, by omega⟩
        · split at h
          · simp only [Option.some.injEq] at h; subst h; exact ⟨by omega, by omega⟩
          · cases h

theorem optMatchStar_le (alts : List Alt) : ∀ (k p : Nat),
    p ≤ L1.optMatchStar g inp alts k p ∧ (p ≤ inp.size → L1.optMatchStar g inp alts k p ≤ inp.size) := by
  intro k
  induction k with
  | zero => intro p; simp [L1.optMatchStar]
  | succ k ih =>
    intro p
    simp only [L1.optMatchStar]
    cases ho : L1.optMatchOnce g inp alts p with
    | none => simp
    | some q =>
      simp only []
      have hq := optMatchOnce_le inp g alts p q ho
      by_cases hlt : q > p
      · simp only [hlt, ↓reduceIte]
        have := ih q
        exact ⟨by omega, fun _ => this.2 hq.2⟩
      · simp [hlt]

theorem optMatch_le (alts : List Alt) (star : Bool) (p q : Nat)
    (h : L1.optMatch g inp alts star p = some q) : p ≤ q ∧ (p ≤ inp.size → q ≤ inp.size) := by
  unfold L1.optMatch at h
  by_cases he : alts.isEmpty = true
  · simp only [he, ↓reduceIte, Option.some.injEq] at h; subst h; exact ⟨Nat.le_refl _, id⟩
  · simp only [he, Bool.false_eq_true, ↓reduceIte] at h
    by_cases hs : star = true
    · simp only [hs, ↓reduceIte, Option.some.injEq] at h; subst h
      exact optMatchStar_le inp g alts _ p
    · simp only [hs, Bool.false_eq_true, ↓reduceIte] at h
      have := optMatchOnce_le inp g alts p q h
      exact ⟨this.1, fun _ => this.2⟩

end OptS
end Pest
