/-
  Lemmas/FrontScanTrivia.lean — the scanner half of the C10 round trip for every layout:

    scan_roundtrip_text   : g.WF → GrammarText g t → ∃ toks, scan t = .ok toks ∧ kvOf toks = g.kv
    scan_roundtrip_trivia : g.WF → IsTrivia lead → (∀ i, IsTrivia (sep i)) →
                            ∃ toks, scan (g.prettyWith lead sep) = .ok toks ∧ kvOf toks = g.kv

  `GrammarText g t` (Front/AstTrivia.lean): `t` spells the tokens of `g` with *any* trivia —
  blanks, tabs, line feeds, CR LF, nested block comments, line comments; possibly none — before
  the first item, behind every token and behind the line feed of every doc line.  No two
  adjacent tokens of a grammar can merge (an identifier is followed by `=`, an operator, a
  closer, `(` or `[`; a number by `,` `}` `..` `]`), which is what the matcher lemmas of
  Lemmas/FrontScanTriviaTok.lean need; the only fixed layout is inside doc lines and literals
  (and `^"` is one token).

  Same architecture as Lemmas/FrontScanRT.lean (open recursion, induction on the fuel only);
  `Bl` becomes `Tr`, `spellAll kvs ++ tl` becomes `Sc kvs t tl`.  The depth bound now counts the
  `(` tokens (`lp`), since separators may be empty.  At the end: `BB`, a direct description of
  (nested) block comments, with `isBlock_of_BB`.
-/
import PestModel.Lemmas.FrontScanTriviaTok

namespace Pest
namespace Front
namespace TRT
open RT

/-! ### what the recursion has to deliver -/

def ExprOKg (rec : M Unit) (e : SExpr) : Prop :=
  ∀ (bar : Bool) (F t tl : Text), Hd closer tl → Sc (barKV bar ++ e.kv) t tl → Tr F t →
    Sp rec F () tl (barKV bar ++ e.kv)

def TermOKg (rec : M Unit) (t : STerm) : Prop :=
  ∀ inp tl : Text, Hd afterTerm tl → Sc t.kv inp tl → Sp (acceptTerm rec) inp () tl t.kv

def SubOKg (rec : M Unit) : SNode → Prop
  | .push _ e => ExprOKg rec e
  | .paren _ e => ExprOKg rec e
  | _ => True

theorem exprStart_32 : exprStart 32 = false := by decide

/-! ### terminals -/

theorem sp_scanIdent_g {name : Text} (h : IsIdent name) {F : Text} (hF : Hd nic F) :
    Sp scanIdent (name ++ F) (some (keywordKind name)) F [(keywordKind name, name)] := by
  intro s hs
  have hm := mIdentifier_ident_g h hF
  refine ⟨(s.adv name.length).emit (keywordKind name) name, ?_, by simp [hs], by simp⟩
  simp [scanIdent, hs, hm]

theorem sp_terminal_str_g (rec : M Unit) (s : Text) {t tl : Text} (hs : Sc (SNode.str s).kv t tl) :
    ∃ F', Tr F' tl ∧ Sp (acceptTerminal rec) t true F' (SNode.str s).kv := by
  simp only [SNode.kv] at hs
  obtain ⟨w, m, hw, rfl, h1⟩ := sc_cons_inv hs
  have := sc_nil_inv h1; subst this
  refine ⟨w ++ m, Tr.mk hw m, ?_⟩
  unfold acceptTerminal
  sp_begin
  sp_step (sp_scanEmit_none .pushLiteral
    (mLit_pushLit_ne (c := 34) (escapeBody s ++ 34 :: (w ++ m)) (by decide)))
  sp_step (sp_scanEmit_none .push (mLit_push_ne _ (by decide)))
  sp_step (sp_scanIdent_none _ (by decide))
  sp_step (sp_acceptString s (w ++ m))
  exact Sp.pure true _
  case hi => simp [spell]
  case hk => simp [SNode.kv]

theorem sp_terminal_ci_g (rec : M Unit) (s : Text) {t tl : Text} (hs : Sc (SNode.ci s).kv t tl) :
    ∃ F', Tr F' tl ∧ Sp (acceptTerminal rec) t true F' (SNode.ci s).kv := by
  simp only [SNode.kv] at hs
  obtain ⟨w, m, hw, rfl, h1⟩ := sc_cons_inv hs
  have := sc_nil_inv h1; subst this
  refine ⟨w ++ m, Tr.mk hw m, ?_⟩
  unfold acceptTerminal
  sp_begin
  sp_step (sp_scanEmit_none .pushLiteral
    (mLit_pushLit_ne (c := 94) (34 :: (escapeBody s ++ 34 :: (w ++ m))) (by decide)))
  sp_step (sp_scanEmit_none .push (mLit_push_ne _ (by decide)))
  sp_step (sp_scanIdent_none _ (by decide))
  sp_step (sp_acceptString_no (by simp))
  sp_step (sp_acceptCIString s (w ++ m))
  exact Sp.pure true _
  case hi => simp [spell]
  case hk => simp [SNode.kv]

theorem sp_terminal_range_g (rec : M Unit) (a b : Nat) {t tl : Text}
    (hs : Sc (SNode.range a b).kv t tl) :
    ∃ F', Tr F' tl ∧ Sp (acceptTerminal rec) t true F' (SNode.range a b).kv := by
  simp only [SNode.kv] at hs
  obtain ⟨F', hF', hcr⟩ := sp_charRange_g a b hs
  obtain ⟨w, m, _, e, _⟩ := sc_cons_inv hs
  obtain ⟨ra, ha⟩ := charLit_cons a
  have e' : t = 39 :: (ra ++ (w ++ m)) := by rw [e]; simp [spell, ha]
  refine ⟨F', hF', ?_⟩
  rw [e'] at hcr ⊢
  unfold acceptTerminal
  sp_begin
  sp_step (sp_scanEmit_none .pushLiteral
    (mLit_pushLit_ne (c := 39) (ra ++ (w ++ m)) (by decide)))
  sp_step (sp_scanEmit_none .push (mLit_push_ne _ (by decide)))
  sp_step (sp_scanIdent_none _ (by decide))
  sp_step (sp_acceptString_no (by simp))
  sp_step (sp_acceptCIString_no (by simp))
  exact hcr
  case hi => rfl
  case hk => simp [SNode.kv]

theorem sp_terminal_ident_g (rec : M Unit) {name : Text} (h : IsIdent name) {t tl : Text}
    (hs : Sc (SNode.ident name).kv t tl) (htl : Hd afterNode tl) :
    ∃ F', Tr F' tl ∧ Sp (acceptTerminal rec) t true F' (SNode.ident name).kv := by
  simp only [SNode.kv] at hs
  obtain ⟨w, m, hw, rfl, h1⟩ := sc_cons_inv hs
  have := sc_nil_inv h1; subst this
  have hF : Hd nic (w ++ m) := hd_nic @nic_afterNode (Tr.mk hw m) htl
  have hp := mLit_push_ident_g h hF
  have hpl := mLit_pushLit_of_push hp
  by_cases hk : keywordKind name = .peek
  · refine ⟨m, Tr.refl m, ?_⟩
    unfold acceptTerminal
    sp_begin
    sp_step (sp_scanEmit_none .pushLiteral hpl)
    sp_step (sp_scanEmit_none .push hp)
    sp_step (sp_scanIdent_g h hF)
    simp only [hk, ↓reduceIte]
    exact sp_peekTail_no_g (Tr.mk hw m) htl
    case hi => simp [spell_keyword]
    case hk => simp [SNode.kv]
  · refine ⟨w ++ m, Tr.mk hw m, ?_⟩
    unfold acceptTerminal
    sp_begin
    sp_step (sp_scanEmit_none .pushLiteral hpl)
    sp_step (sp_scanEmit_none .push hp)
    sp_step (sp_scanIdent_g h hF)
    simp only [hk, ↓reduceIte]
    exact Sp.pure true _
    case hi => simp [spell_keyword]
    case hk => simp [SNode.kv]

theorem slice_kv (a b : Option Int) : (SNode.slice a b).kv = (.peek, sPEEK) :: sliceKV a b := by
  simp [SNode.kv, sliceKV]

theorem sp_terminal_slice_g (rec : M Unit) (a b : Option Int) {t tl : Text}
    (hs : Sc (SNode.slice a b).kv t tl) :
    ∃ F', Tr F' tl ∧ Sp (acceptTerminal rec) t true F' (SNode.slice a b).kv := by
  rw [slice_kv] at hs ⊢
  obtain ⟨w, t1, hw, rfl, h1⟩ := sc_cons_inv hs
  have h91 : Hd (· == 91) t1 := by
    have h1' : Sc ((.lbracket, [91]) :: (optIntKV a ++ ((.rangeOp, [46, 46]) ::
        (optIntKV b ++ [(.rbracket, [93])])))) t1 tl := by simpa [sliceKV] using h1
    obtain ⟨_, _, _, e, _⟩ := sc_cons_inv h1'
    rw [e]; simp [spell]
  have hF : Hd nic (w ++ t1) :=
    hd_nic (fun c hc => by simp at hc; subst hc; decide) (Tr.mk hw t1) h91
  have hp := mLit_push_ident_g isIdent_PEEK hF
  have hpl := mLit_pushLit_of_push hp
  have hk : keywordKind sPEEK = .peek := by decide
  obtain ⟨F', hF', hpt⟩ := sp_peekTail_slice_g a b h1 (Tr.mk hw t1)
  refine ⟨F', hF', ?_⟩
  unfold acceptTerminal
  sp_begin
  sp_step (sp_scanEmit_none .pushLiteral hpl)
  sp_step (sp_scanEmit_none .push hp)
  sp_step (sp_scanIdent_g isIdent_PEEK hF)
  simp only [hk, ↓reduceIte]
  exact hpt
  case hi => simp [spell]
  case hk => simp [hk]

theorem sp_terminal_pushLit_g (rec : M Unit) (s : Text) {t tl : Text}
    (hs : Sc (SNode.pushLit s).kv t tl) :
    ∃ F', Tr F' tl ∧ Sp (acceptTerminal rec) t true F' (SNode.pushLit s).kv := by
  simp only [SNode.kv] at hs
  obtain ⟨w1, m1, hw1, rfl, h1⟩ := sc_cons_inv hs
  obtain ⟨w2, m2, hw2, rfl, h2⟩ := sc_cons_inv h1
  obtain ⟨w3, m3, hw3, rfl, h3⟩ := sc_cons_inv h2
  obtain ⟨w4, m4, hw4, rfl, h4⟩ := sc_cons_inv h3
  have := sc_nil_inv h4; subst this
  refine ⟨w4 ++ m4, Tr.mk hw4 m4, ?_⟩
  unfold acceptTerminal
  sp_begin
  sp_step (sp_scanEmit .pushLiteral (mLit_self sPUSH_LITERAL
    (w1 ++ 40 :: (w2 ++ 34 :: (escapeBody s ++ 34 :: (w3 ++ 41 :: (w4 ++ m4)))))))
  sp_step (sp_triv_w hw1 (stop_tokc _ (by decide)))
  sp_step (sp_expect 40 .lparen .expectedLParen _)
  sp_step (sp_triv_w hw2 (stop_tokc _ (by decide)))
  sp_step (sp_acceptString s (w3 ++ 41 :: (w4 ++ m4)))
  sp_step (sp_triv_w hw3 (stop_tokc _ (by decide)))
  sp_step (sp_expect 41 .rparen .expectedRParen _)
  exact Sp.pure true _
  case hi => simp [spell]
  case hk => simp [SNode.kv]

theorem mLit_pushLit_push {F : Text} (hF : Hd (fun c => c != 95) F) :
    mLit sPUSH_LITERAL (sPUSH ++ F) = none := by
  obtain ⟨x, F', rfl, hx⟩ := hF.dest
  have : (x == 95) = false := by simpa using hx
  simp [mLit, sPUSH, sPUSH_LITERAL, startsWith, this]

theorem push_kv (bar : Bool) (e : SExpr) :
    (SNode.push bar e).kv =
      (.push, sPUSH) :: (.lparen, [40]) :: ((barKV bar ++ e.kv) ++ [(.rparen, [41])]) := by
  simp [SNode.kv]

theorem sp_terminal_push_g (rec : M Unit) (bar : Bool) {e : SExpr} (hwf : e.WF)
    (hrec : ExprOKg rec e) {t tl : Text} (hs : Sc (SNode.push bar e).kv t tl) :
    ∃ F', Tr F' tl ∧ Sp (acceptTerminal rec) t true F' (SNode.push bar e).kv := by
  rw [push_kv] at hs ⊢
  obtain ⟨w1, m1, hw1, rfl, h1⟩ := sc_cons_inv hs
  obtain ⟨w2, t1, hw2, rfl, h2⟩ := sc_cons_inv h1
  obtain ⟨t2, hE, h3⟩ := sc_append _ h2
  obtain ⟨w3, m3, hw3, rfl, h4⟩ := sc_cons_inv h3
  have := sc_nil_inv h4; subst this
  have hE' : Sc (barKV bar ++ e.kv) t1 (41 :: (w3 ++ m3)) := by simpa [spell] using hE
  have hno : mLit sPUSH_LITERAL (sPUSH ++ (w1 ++ 40 :: (w2 ++ t1))) = none :=
    mLit_pushLit_push (isTrivia_hd (fun c hc => by
      have h' : c = 32 ∨ c = 9 ∨ c = 10 ∨ c = 13 ∨ c = 47 := by simp [tokc] at hc; omega
      rcases h' with h | h | h | h | h <;> subst h <;> decide) hw1 (hd_lit _ (by decide)))
  have hst : Stop t1 := (sc_hd hE' (hd_barExpr bar hwf _) exprStart_32).stop @tokc_exprStart
  refine ⟨w3 ++ m3, Tr.mk hw3 m3, ?_⟩
  unfold acceptTerminal
  sp_begin
  sp_step (sp_scanEmit_none .pushLiteral hno)
  sp_step (sp_scanEmit .push (mLit_self sPUSH _))
  sp_step (sp_triv_w hw1 (stop_tokc _ (by decide)))
  sp_step (sp_expect 40 .lparen .expectedLParen _)
  sp_step (sp_triv_w hw2 hst)
  sp_step (hrec bar t1 t1 (41 :: (w3 ++ m3)) (by simp [closer]) hE' (Tr.refl _))
  sp_step (sp_triv_id (stop_tokc _ (by decide)))
  sp_step (sp_expect 41 .rparen .expectedRParen _)
  exact Sp.pure true _
  case hi => simp [spell]
  case hk => simp

/-- every node but a parenthesis -/
theorem sp_terminal_g (rec : M Unit) {nd : SNode} (hwf : nd.WF) (hsub : SubOKg rec nd)
    (hnp : ∀ b e, nd ≠ .paren b e) {t tl : Text} (hs : Sc nd.kv t tl) (htl : Hd afterNode tl) :
    ∃ F', Tr F' tl ∧ Sp (acceptTerminal rec) t true F' nd.kv := by
  cases nd with
  | str s => exact sp_terminal_str_g rec s hs
  | ci s => exact sp_terminal_ci_g rec s hs
  | range a b => exact sp_terminal_range_g rec a b hs
  | ident name => exact sp_terminal_ident_g rec (by simpa [SNode.WF] using hwf) hs htl
  | pushLit s => exact sp_terminal_pushLit_g rec s hs
  | push b e => exact sp_terminal_push_g rec b (by simpa [SNode.WF] using hwf) hsub hs
  | slice a b => exact sp_terminal_slice_g rec a b hs
  | paren b e => exact absurd rfl (hnp b e)

/-! ### terms -/

/-- first characters of a prefix operator or a node -/
def preStart (c : Nat) : Bool := c == 38 || c == 33 || nodeStart c

theorem hd_pre' (pre : List Bool) {tl : Text} (h : Hd nodeStart tl) :
    Hd preStart (spellAll (pre.map preKV) ++ tl) := by
  cases pre with
  | nil => exact h.mono (fun c hc => by simp [preStart, hc])
  | cons b r => cases b <;> simp [spellAll_cons, preKV, spell, preStart]

theorem preStart_ne35 {c : Nat} (h : preStart c = true) : (c != 35) = true := by
  simp only [preStart, Bool.or_eq_true, beq_iff_eq] at h
  have : c ≠ 35 := by
    rcases h with (h | h) | h
    · omega
    · omega
    · rcases nodeStart_cases h with h | h | h | h | h <;> try omega
      have := isIdentStart_cases h; omega
  simpa using this

theorem paren_kv (b : Bool) (e : SExpr) :
    (SNode.paren b e).kv = (.lparen, [40]) :: ((barKV b ++ e.kv) ++ [(.rparen, [41])]) := by
  simp [SNode.kv]

theorem termOK_g (rec : M Unit) {t : STerm} (hwf : t.WF)
    (hsub : match t with | .mk _ _ nd _ => SubOKg rec nd) : TermOKg rec t := by
  intro inp tl htl hs
  cases t with
  | mk tag pre nd post =>
    simp only at hsub
    have hnd : nd.WF := node_wf_of_term hwf
    have htag : ∀ tg, tag = some tg → IsTagName tg := by
      intro tg e; subst e; simp only [STerm.WF] at hwf; exact hwf.1
    have hs' : Sc (tagKV tag ++ (pre.map preKV ++ (nd.kv ++ postsKV post))) inp tl := by
      simpa [STerm.kv, postsKV] using hs
    obtain ⟨Q, hsT, h1⟩ := sc_append _ hs'
    obtain ⟨N, hsQ, h2⟩ := sc_append _ h1
    obtain ⟨P, hsN, hsP⟩ := sc_append _ h2
    have hP : Hd afterNode P := sc_hd hsP (hd_posts post htl) afterNode_32
    have hN : Hd nodeStart N := sc_hd hsN (hd_node hnd P) nodeStart_32
    have hQ : Hd termStart Q := sc_hd hsQ (hd_pre pre hN) termStart_32
    have hQ' : Hd preStart Q := sc_hd hsQ (hd_pre' pre hN) (by decide)
    have htagStep : Sp acceptTag inp () Q (tagKV tag) := by
      cases tag with
      | some tg => exact sp_acceptTag_some_g (htag tg rfl) hsT (hQ.stop @tokc_termStart)
      | none =>
        have := sc_nil_inv (by simpa [tagKV] using hsT); subst this
        simpa [tagKV] using sp_acceptTag_none (hQ'.mono @preStart_ne35)
    have hpreStep : Sp (fun s => prefixLoop (s.rest.length + 1) s) Q () N (pre.map preKV) := by
      apply Sp.lenFuel pre.length
      · have := pre_length_le pre hsQ; omega
      · intro n hn; exact sp_prefixLoop_g pre n Q N hn hsQ hN
    unfold acceptTerm
    by_cases hp : ∃ b e, nd = .paren b e
    · obtain ⟨b, e, rfl⟩ := hp
      have he : e.WF := by simpa [SNode.WF] using hnd
      have hrec : ExprOKg rec e := hsub
      rw [paren_kv] at hsN
      obtain ⟨w1, t1, hw1, rfl, h3⟩ := sc_cons_inv hsN
      obtain ⟨t2, hE, h4⟩ := sc_append _ h3
      obtain ⟨w2, m2, hw2, rfl, h5⟩ := sc_cons_inv h4
      have := sc_nil_inv h5; subst this
      have hE' : Sc (barKV b ++ e.kv) t1 (41 :: (w2 ++ m2)) := by simpa [spell] using hE
      have hst : Stop t1 := (sc_hd hE' (hd_barExpr b he _) exprStart_32).stop @tokc_exprStart
      sp_begin
      sp_step htagStep
      sp_step hpreStep
      sp_step (sp_terminal_paren rec (w1 ++ t1))
      sp_step (sp_expect 40 .lparen .expectedLParen _)
      sp_step (sp_triv_w hw1 hst)
      sp_step (hrec b t1 t1 (41 :: (w2 ++ m2)) (by simp [closer]) hE' (Tr.refl _))
      sp_step (sp_triv_id (stop_tokc _ (by decide)))
      sp_step (sp_expect 41 .rparen .expectedRParen _)
      exact sp_acceptPostfixOps_g post htl hsP (Tr.mk hw2 m2)
      case hi => rfl
      case hk => simp [STerm.kv, SNode.kv, postsKV]
    · have hnp : ∀ b e, nd ≠ .paren b e := fun b e h => hp ⟨b, e, h⟩
      obtain ⟨F', hF', hterm⟩ := sp_terminal_g rec hnd hsub hnp hsN hP
      sp_begin
      sp_step htagStep
      sp_step hpreStep
      sp_step hterm
      exact sp_acceptPostfixOps_g post htl hsP hF'
      case hi => rfl
      case hk => simp [STerm.kv, postsKV]

/-! ### expressions -/

theorem sp_leadingChoice_g (bar : Bool) {t X : Text} (hs : Sc (barKV bar) t X)
    (hX : Hd termStart X) : Sp leadingChoice t () X (barKV bar) := by
  cases bar with
  | true =>
    simp only [barKV, ↓reduceIte] at hs
    obtain ⟨w, m, hw, rfl, h1⟩ := sc_cons_inv hs
    have := sc_nil_inv h1; subst this
    unfold leadingChoice
    sp_begin
    sp_step (sp_optChar 124 .choiceOp (w ++ m))
    exact sp_triv_w hw (hX.stop @tokc_termStart)
    case hi => simp [spell]
    case hk => simp [barKV]
  | false =>
    have := sc_nil_inv (by simpa [barKV] using hs); subst this
    simpa [barKV] using sp_leadingChoice false hX

/-- number of infix operators -/
def nops : SExpr → Nat
  | .one _ => 0
  | .cons _ _ r => nops r + 1

theorem nops_le : ∀ (e : SExpr) {t tl : Text}, Sc (tailKV e) t tl → nops e + tl.length ≤ t.length
  | .one _, t, tl, h => by
    have := sc_nil_inv (by simpa [tailKV] using h); subst this; simp [nops]
  | .cons _ b r, t, tl, h => by
    simp only [tailKV] at h
    obtain ⟨w, m, _, rfl, h1⟩ := sc_cons_inv h
    rw [kv_first_tail r] at h1
    obtain ⟨R, h2, h3⟩ := sc_append _ h1
    have i1 := nops_le r h3
    have i2 := sc_length h2
    cases b <;> simp [opKV, spell, nops] <;> omega

theorem sp_exprLoop_g (rec : M Unit) : ∀ (e : SExpr), (∀ t ∈ terms e, TermOKg rec t) →
    (∀ t ∈ terms e, t.WF) → ∀ (n : Nat), nops e < n → ∀ (inp tl : Text), Hd closer tl →
    Sc (tailKV e) inp tl → Sp (exprLoop rec n) inp () tl (tailKV e)
  | .one t, _, _, n, hn, inp, tl, htl, hs => by
    have := sc_nil_inv (by simpa [tailKV] using hs); subst this
    cases n with
    | zero => omega
    | succ n =>
      have hat : Hd afterTerm inp := htl.mono @afterTerm_of_closer
      unfold exprLoop
      sp_begin
      sp_step (sp_triv_id (hat.stop @tokc_afterTerm))
      sp_step (sp_optChar_no 126 .sequenceOp (head_ne_of_hd htl (by decide)))
      sp_step (sp_optChar_no 124 .choiceOp (head_ne_of_hd htl (by decide)))
      exact Sp.pure () _
      case hi => rfl
      case hk => simp [tailKV]
  | .cons t b r, hT, hW, n, hn, inp, tl, htl, hs => by
    cases n with
    | zero => omega
    | succ n =>
      have hT' : ∀ t ∈ terms r, TermOKg rec t := fun t ht => hT t (by simp [terms, ht])
      have hW' : ∀ t ∈ terms r, t.WF := fun t ht => hW t (by simp [terms, ht])
      have hf := firstTerm_mem r
      have hn' : nops r < n := by simp only [nops] at hn; omega
      simp only [tailKV] at hs
      obtain ⟨w, m, hw, rfl, h1⟩ := sc_cons_inv hs
      rw [kv_first_tail r] at h1
      obtain ⟨R, hFst, hTail⟩ := sc_append _ h1
      have hR : Hd afterTerm R := sc_hd hTail (hd_tail r htl) afterTerm_32
      have hfirst := hT' _ hf m R hR hFst
      have hm : Hd termStart m := sc_hd hFst (hd_term (hW' _ hf) R) termStart_32
      have ih := sp_exprLoop_g rec r hT' hW' n hn' R tl htl hTail
      unfold exprLoop
      cases b with
      | false =>
        sp_begin
        sp_step (sp_triv_id (tl := 126 :: (w ++ m)) (stop_tokc _ (by decide)))
        sp_step (sp_optChar 126 .sequenceOp _)
        sp_step (sp_triv_w hw (hm.stop @tokc_termStart))
        sp_step hfirst
        exact ih
        case hi => simp [opKV, spell]
        case hk => simp [tailKV, opKV, kv_first_tail r]
      | true =>
        sp_begin
        sp_step (sp_triv_id (tl := 124 :: (w ++ m)) (stop_tokc _ (by decide)))
        sp_step (sp_optChar_no 126 .sequenceOp (by simp))
        sp_step (sp_optChar 124 .choiceOp _)
        sp_step (sp_triv_w hw (hm.stop @tokc_termStart))
        sp_step hfirst
        exact ih
        case hi => simp [opKV, spell]
        case hk => simp [tailKV, opKV, kv_first_tail r]

theorem exprStep_ok_g (rec : M Unit) {e : SExpr} (hT : ∀ t ∈ terms e, TermOKg rec t)
    (hwf : e.WF) : ExprOKg (exprStep rec) e := by
  intro bar F t tl htl hs hF
  have hW := terms_wf e hwf
  have hst : Stop t := (sc_hd hs (hd_barExpr bar hwf tl) exprStart_32).stop @tokc_exprStart
  obtain ⟨t1, hBar, h1⟩ := sc_append _ hs
  rw [kv_first_tail e] at h1
  obtain ⟨R, hFst, hTail⟩ := sc_append _ h1
  have hR : Hd afterTerm R := sc_hd hTail (hd_tail e htl) afterTerm_32
  have ht1 : Hd termStart t1 :=
    sc_hd hFst (hd_term (hW _ (firstTerm_mem e)) R) termStart_32
  unfold exprStep
  sp_begin
  sp_step (sp_triv_tr hF hst)
  sp_step (sp_leadingChoice_g bar hBar ht1)
  sp_step (hT _ (firstTerm_mem e) t1 R hR hFst)
  · apply Sp.lenFuel (nops e)
    · have := nops_le e hTail; omega
    · intro n hn
      exact sp_exprLoop_g rec e hT hW n hn R tl htl hTail
  case hi => rfl
  case hk => rw [kv_first_tail e]; simp

theorem acceptExpression_ok_g : ∀ (fuel : Nat) (e : SExpr), e.WF → exprDepth e < fuel →
    ExprOKg (acceptExpression fuel) e := by
  intro fuel
  induction fuel with
  | zero => intro e _ h; omega
  | succ f ih =>
    intro e hwf hd
    rw [acceptExpression_succ]
    apply exprStep_ok_g _ _ hwf
    intro t ht
    have htw := terms_wf e hwf t ht
    have htd := terms_depth e t ht
    apply termOK_g _ htw
    cases t with
    | mk tag pre nd post =>
      simp only
      have hnd : nd.WF := node_wf_of_term htw
      cases nd with
      | push b e' =>
        exact ih e' (by simpa [SNode.WF] using hnd) (by simp [termDepth, nodeDepth] at htd; omega)
      | paren b e' =>
        exact ih e' (by simpa [SNode.WF] using hnd) (by simp [termDepth, nodeDepth] at htd; omega)
      | _ => trivial

/-! ### the depth is below the length of the text: count the `(` -/

/-- number of `(` tokens -/
def lp (kvs : List KV) : Nat := (kvs.filter (· == (.lparen, [40]))).length

theorem lp_append (a b : List KV) : lp (a ++ b) = lp a + lp b := by simp [lp]

theorem lp_cons (kv : KV) (r : List KV) :
    lp (kv :: r) = (if kv == (.lparen, [40]) then 1 else 0) + lp r := by
  simp only [lp, List.filter_cons]
  split <;> simp <;> omega

theorem sc_lp {kvs : List KV} {t tl : Text} (h : Sc kvs t tl) : lp kvs + tl.length ≤ t.length := by
  induction h with
  | nil _ => simp [lp]
  | cons kv _ _ ih =>
    rw [lp_cons]
    split
    · rename_i hkv
      have : kv = (.lparen, [40]) := by simpa using hkv
      subst this
      simp [spell]; omega
    · simp; omega

mutual
theorem nodeDepth_lp : ∀ nd : SNode, nodeDepth nd ≤ lp nd.kv
  | .push b e => by
    have := exprDepth_lp e
    have h1 : lp [(TK.push, sPUSH), (TK.lparen, [40])] = 1 := by decide
    simp only [nodeDepth, SNode.kv, lp_append, h1]; omega
  | .paren b e => by
    have := exprDepth_lp e
    have h1 : lp [(TK.lparen, [40])] = 1 := by decide
    simp only [nodeDepth, SNode.kv, lp_append, h1]; omega
  | .str _ => by simp [nodeDepth]
  | .ci _ => by simp [nodeDepth]
  | .range _ _ => by simp [nodeDepth]
  | .ident _ => by simp [nodeDepth]
  | .pushLit _ => by simp [nodeDepth]
  | .slice _ _ => by simp [nodeDepth]
theorem termDepth_lp : ∀ t : STerm, termDepth t ≤ lp t.kv
  | .mk tag pre nd post => by
    have := nodeDepth_lp nd
    simp only [termDepth, STerm.kv, lp_append]; omega
theorem exprDepth_lp : ∀ e : SExpr, exprDepth e ≤ lp e.kv
  | .one t => by
    have := termDepth_lp t
    simpa [exprDepth, SExpr.kv] using this
  | .cons t b r => by
    have h1 := termDepth_lp t
    have h2 := exprDepth_lp r
    simp only [exprDepth, SExpr.kv, lp_append]; omega
end

/-! ### rules -/

theorem headKV_eq (r : SRule) : r.headKV = ruleKV r := rfl

theorem ruleKV_cons (r : SRule) :
    ruleKV r = (.identifier, r.name) :: (.assignOp, [61]) :: (modKV r.mod ++
      ((.lbrace, [123]) :: ((barKV r.bar ++ r.body.kv) ++ [(.rbrace, [125])]))) := by
  simp [ruleKV]

theorem stop_mod_g (m : Option Nat)
    (hm : match m with | some c => c = 95 ∨ c = 64 ∨ c = 36 ∨ c = 33 | none => True)
    {t X : Text} (hs : Sc (modKV m) t (123 :: X)) : Stop t := by
  cases m with
  | none =>
    have := sc_nil_inv (by simpa [modKV] using hs); subst this
    exact stop_tokc X (by decide)
  | some c =>
    simp only at hm
    simp only [modKV] at hs
    obtain ⟨w, m', _, rfl, _⟩ := sc_cons_inv hs
    simp only [spell, List.cons_append, List.nil_append]
    exact stop_tokc _ (by rcases hm with h | h | h | h <;> subst h <;> decide)

/-- `scan_grammar_rule` from the rule name to the closing brace -/
theorem sp_ruleTail_g {r : SRule} (hwf : r.WF) {t more : Text} (hs : Sc (ruleKV r) t more) :
    ∃ F', Tr F' more ∧ Sp ruleTail t (some .grammarRule) F' (ruleKV r) := by
  obtain ⟨_, hname, hmod, hbody⟩ := hwf
  obtain ⟨c, rn, hc, hcs, _, _⟩ := isIdent_dest hname
  rw [ruleKV_cons] at hs
  obtain ⟨w1, m1, hw1, rfl, h1⟩ := sc_cons_inv hs
  obtain ⟨w2, t1, hw2, rfl, h2⟩ := sc_cons_inv h1
  obtain ⟨t2, hM, h3⟩ := sc_append _ h2
  obtain ⟨w3, t3, hw3, rfl, h4⟩ := sc_cons_inv h3
  obtain ⟨t4, hE, h5⟩ := sc_append _ h4
  obtain ⟨w4, m4, hw4, rfl, h6⟩ := sc_cons_inv h5
  have := sc_nil_inv h6; subst this
  have hM' : Sc (modKV r.mod) t1 (123 :: (w3 ++ t3)) := by simpa [spell] using hM
  have hE' : Sc (barKV r.bar ++ r.body.kv) t3 (125 :: (w4 ++ m4)) := by simpa [spell] using hE
  have hstart : Stop (r.name ++ (w1 ++ 61 :: (w2 ++ t1))) := by
    rw [hc]; exact stop_tokc _ (tokc_identStart hcs)
  refine ⟨w4 ++ m4, Tr.mk hw4 m4, ?_⟩
  unfold ruleTail
  sp_begin
  sp_step (sp_triv_id hstart)
  sp_step (sp_scanEmit .identifier (mIdentifier_ident_g hname (hd_nic_w hw1 _ (by decide))))
  sp_step (sp_triv_w hw1 (stop_tokc _ (by decide)))
  sp_step (sp_expect 61 .assignOp .expectedAssign _)
  sp_step (sp_triv_w hw2 (stop_mod_g r.mod hmod hM'))
  sp_step (sp_optModifier_g r.mod hmod hM')
  sp_step (sp_expect 123 .lbrace .expectedLBrace _)
  · apply Sp.bind' (m := fun s => acceptExpression (s.rest.length + 1) s)
      (k1 := barKV r.bar ++ r.body.kv) (t1 := 125 :: (w4 ++ m4))
    · apply Sp.lenFuel (exprDepth r.body)
      · have i1 := exprDepth_lp r.body
        have i2 := sc_lp hE'
        rw [lp_append] at i2
        simp; omega
      · intro n hn
        exact acceptExpression_ok_g n r.body hbody hn r.bar _ _ _ (by simp [closer]) hE'
          (Tr.mk hw3 t3)
    · sp_step (sp_expect 125 .rbrace .expectedRBrace _)
      exact Sp.pure _ _
  case hi => simp [spell]
  case hk => simp [ruleKV]

/-! ### the state functions -/

theorem sp_stateFn_gdoc_g {F X : Text} (hF : Tr F (sGDOC ++ X)) :
    Sp (stateFn .grammar) F (some .grammarDocInner) X [(.grammarDoc, sGDOC)] := by
  unfold stateFn
  sp_begin
  sp_step (sp_triv_tr hF (stop_doc X).2)
  sp_step (sp_scanEmit .grammarDoc (mLit_self sGDOC X))
  exact Sp.pure _ _
  case hi => rfl
  case hk => simp

theorem sp_stateFn_rdoc_g {F X : Text} (hF : Tr F (sRDOC ++ X)) :
    Sp (stateFn .grammarRule) F (some .ruleDocInner) X [(.ruleDoc, sRDOC)] := by
  unfold stateFn
  sp_begin
  sp_step (sp_triv_tr hF (stop_doc X).1)
  sp_step (sp_scanEmit .ruleDoc (mLit_self sRDOC X))
  exact Sp.pure _ _
  case hi => rfl
  case hk => simp

theorem sp_stateFn_grammar_rules_g {F X : Text} (hF : Tr F X) (hX : RuleStart X) :
    Sp (stateFn .grammar) F (some .grammarRule) X [] := by
  unfold stateFn
  sp_begin
  sp_step (sp_triv_tr hF hX.stop)
  sp_step (sp_scanEmit_none .grammarDoc hX.no_gdoc)
  exact Sp.pure _ _
  case hi => rfl
  case hk => simp

theorem ruleText_hd {r : SRule} (hwf : r.WF) {t more : Text} (hs : Sc (ruleKV r) t more) :
    Hd isIdentStart t := by
  obtain ⟨c, rn, hc, hcs, _, _⟩ := isIdent_dest hwf.2.1
  rw [ruleKV_cons] at hs
  obtain ⟨w1, m1, _, rfl, _⟩ := sc_cons_inv hs
  simp [spell, hc, hcs]

theorem sp_stateFn_rule_g {F t more : Text} (hF : Tr F t) {r : SRule} (hwf : r.WF)
    (hs : Sc (ruleKV r) t more) :
    ∃ F', Tr F' more ∧ Sp (stateFn .grammarRule) F (some .grammarRule) F' (ruleKV r) := by
  have hd := ruleText_hd hwf hs
  obtain ⟨c, Y, hY, hcs⟩ := hd.dest
  have hst : Stop t := hd.stop @tokc_identStart
  have hnd : mLit sRDOC t = none := by
    rw [hY]
    have := isIdentStart_cases hcs
    exact mLit_ne Y (by omega)
  obtain ⟨F', hF', htail⟩ := sp_ruleTail_g hwf hs
  refine ⟨F', hF', ?_⟩
  unfold stateFn
  sp_begin
  sp_step (sp_triv_tr hF hst)
  sp_step (sp_scanEmit_none .ruleDoc hnd)
  exact htail
  case hi => rfl
  case hk => simp

theorem sp_stateFn_end_g {F : Text} (hF : Tr F []) : Sp (stateFn .grammarRule) F none [] [] := by
  have hlast : Sp (fun s : St => if s.rest.isEmpty then SR.ok (none : Option Fn) s
      else error .expectedRule s) [] none [] [] := by
    intro s hs
    exact ⟨s, by simp [hs], hs, by simp⟩
  unfold stateFn ruleTail
  sp_begin
  sp_step (sp_triv_tr hF stop_nil)
  sp_step (sp_scanEmit_none .ruleDoc (t := []) rfl)
  sp_step (sp_triv_id stop_nil)
  sp_step (sp_scanEmit_none .identifier (t := []) rfl)
  exact hlast
  case hi => rfl
  case hk => simp

/-! ### the driver loop -/

theorem run_docs_g (outer inner : Fn) (marker : TK) (m : Text)
    (hO : ∀ F X, Tr F (m ++ X) → Sp (stateFn outer) F (some inner) X [(marker, m)])
    (hI : ∀ sp l more, DocSp sp l → IsDocLine l →
      Sp (stateFn inner) (sp ++ (l ++ 10 :: more)) (some outer) (10 :: more) [(.commentText, l)]) :
    ∀ (docs : List Text), (∀ l ∈ docs, IsDocLine l) → ∀ (n : Nat) (F t tl : Text) (K : List KV),
    DocsText m docs t tl → Tr F t → (∀ F', Tr F' tl → RunOK n outer F' K) →
    RunOK (n + 2 * docs.length) outer F ((docs.map (docKV marker m)).flatten ++ K) := by
  intro docs
  induction docs with
  | nil =>
    intro _ n F t tl K hd hF hk
    have : t = tl := hd
    subst this
    simpa using hk F hF
  | cons l docs ih =>
    intro hd n F t tl K hdt hF hk
    have hl : IsDocLine l := hd l (by simp)
    obtain ⟨sp, ws, t', hsp, hws, rfl, hrest⟩ := hdt
    have ih' := ih (fun l' h' => hd l' (by simp [h'])) n (10 :: (ws ++ t')) t' tl K hrest
      ⟨10 :: ws, .lf hws, rfl⟩ hk
    have e : n + 2 * (l :: docs).length = (n + 2 * docs.length) + 1 + 1 := by simp; omega
    rw [e]
    exact RunOK.step (hO F _ hF) (RunOK.step (hI sp l _ hsp hl) ih' rfl) (by simp [docKV])

theorem run_rdocs_g : ∀ (docs : List Text), (∀ l ∈ docs, IsDocLine l) →
    ∀ (n : Nat) (F t tl : Text) (K : List KV),
    DocsText sRDOC docs t tl → Tr F t → (∀ F', Tr F' tl → RunOK n .grammarRule F' K) →
    RunOK (n + 2 * docs.length) .grammarRule F
      ((docs.map (docKV .ruleDoc sRDOC)).flatten ++ K) :=
  run_docs_g .grammarRule .ruleDocInner .ruleDoc sRDOC
    (fun _ _ hF => sp_stateFn_rdoc_g hF) (fun _ _ more hsp h => sp_stateFn_rdocInner hsp h more)

theorem run_gdocs_g : ∀ (docs : List Text), (∀ l ∈ docs, IsDocLine l) →
    ∀ (n : Nat) (F t tl : Text) (K : List KV),
    DocsText sGDOC docs t tl → Tr F t → (∀ F', Tr F' tl → RunOK n .grammar F' K) →
    RunOK (n + 2 * docs.length) .grammar F
      ((docs.map (docKV .grammarDoc sGDOC)).flatten ++ K) :=
  run_docs_g .grammar .grammarDocInner .grammarDoc sGDOC
    (fun _ _ hF => sp_stateFn_gdoc_g hF) (fun _ _ more hsp h => sp_stateFn_gdocInner hsp h more)

theorem run_rules_g : ∀ (rules : List SRule), (∀ r ∈ rules, r.WF) →
    ∀ (n : Nat) (F t tl : Text) (K : List KV), RulesText rules t tl → Tr F t →
    (∀ F', Tr F' tl → RunOK n .grammarRule F' K) →
    RunOK (n + ruleCalls rules) .grammarRule F ((rules.map SRule.kv).flatten ++ K) := by
  intro rules
  induction rules with
  | nil =>
    intro _ n F t tl K hrt hF hk
    have : t = tl := hrt
    subst this
    simpa [ruleCalls] using hk F hF
  | cons r rules ih =>
    intro hwf n F t tl K hrt hF hk
    have hr : r.WF := hwf r (by simp)
    obtain ⟨t1, t2, hdocs, hsc, hrest⟩ := hrt
    rw [headKV_eq] at hsc
    have hrule : ∀ F', Tr F' t1 → RunOK (n + ruleCalls rules + 1) .grammarRule F'
        (ruleKV r ++ ((rules.map SRule.kv).flatten ++ K)) := by
      intro F' hF'
      obtain ⟨F'', hF'', hstep⟩ := sp_stateFn_rule_g hF' hr hsc
      exact RunOK.step hstep
        (ih (fun r' h' => hwf r' (by simp [h'])) n F'' t2 tl K hrest hF'' hk) rfl
    have := run_rdocs_g r.docs hr.1 (n + ruleCalls rules + 1) F t t1 _ hdocs hF hrule
    have e : n + ruleCalls (r :: rules) = n + ruleCalls rules + 1 + 2 * r.docs.length := by
      simp [ruleCalls]; omega
    rw [e]
    simpa [srule_kv] using this

/-! ### the whole grammar -/

theorem ruleStart_g : ∀ (rules : List SRule), (∀ r ∈ rules, r.WF) → ∀ (trailing : List Text)
    {t1 t2 : Text}, RulesText rules t1 t2 → DocsText sRDOC trailing t2 [] → RuleStart t1 := by
  intro rules hwf trailing t1 t2 hr ht
  have docStart : ∀ (l : Text) (ls : List Text) {t tl : Text}, DocsText sRDOC (l :: ls) t tl →
      RuleStart t := by
    intro l ls t tl h
    obtain ⟨sp, ws, t', _, _, rfl, _⟩ := h
    exact Or.inr (Or.inr ⟨_, by simp [sRDOC]; rfl⟩)
  cases rules with
  | nil =>
    have : t1 = t2 := hr
    subst this
    cases trailing with
    | nil => exact Or.inl ht
    | cons l ls => exact docStart l ls ht
  | cons r rs =>
    have hrw : r.WF := hwf r (by simp)
    obtain ⟨u1, u2, hdocs, hsc, _⟩ := hr
    cases hd : r.docs with
    | nil =>
      rw [hd] at hdocs
      have : t1 = u1 := hdocs
      subst this
      exact Or.inr (Or.inl (ruleText_hd hrw hsc))
    | cons l ls => rw [hd] at hdocs; exact docStart l ls hdocs

theorem run_grammar_g (g : SGrammar) (h : g.WF) {t : Text} (ht : GrammarText g t) :
    RunOK (calls g) .grammar t g.kv := by
  obtain ⟨hg, hr, htr⟩ := h
  obtain ⟨lead, t0, t1, t2, hlead, rfl, hgd, hrt, htd⟩ := ht
  have hEnd : ∀ F', Tr F' [] → RunOK 1 .grammarRule F' [] := fun F' hF' =>
    RunOK.last (n := 0) (sp_stateFn_end_g hF')
  have hTr := fun F' hF' => run_rdocs_g g.trailing htr 1 F' t2 [] [] htd hF' hEnd
  have hRules := fun F' hF' => run_rules_g g.rules hr _ F' t1 t2 _ hrt hF' hTr
  have hG : ∀ F', Tr F' t1 → RunOK (1 + 2 * g.trailing.length + ruleCalls g.rules + 1) .grammar F'
      ((g.rules.map SRule.kv).flatten ++ ((g.trailing.map (docKV .ruleDoc sRDOC)).flatten ++ [])) := by
    intro F' hF'
    exact RunOK.step (sp_stateFn_grammar_rules_g hF' (ruleStart_g g.rules hr g.trailing hrt htd))
      (hRules t1 (Tr.refl t1)) rfl
  have := run_gdocs_g g.gdocs hg _ (lead ++ t0) t0 t1 _ hgd (Tr.mk hlead t0) hG
  simpa [calls, SGrammar.kv] using this

theorem docsText_length {m : Text} (hm : 1 ≤ m.length) : ∀ (docs : List Text) {t tl : Text},
    DocsText m docs t tl → 2 * docs.length + tl.length ≤ t.length := by
  intro docs
  induction docs with
  | nil => intro t tl h; have : t = tl := h; subst this; simp
  | cons l ls ih =>
    intro t tl h
    obtain ⟨sp, ws, t', _, _, rfl, hrest⟩ := h
    have := ih hrest
    simp; omega

theorem rulesText_length : ∀ (rules : List SRule) {t tl : Text}, RulesText rules t tl →
    ruleCalls rules + tl.length ≤ t.length := by
  intro rules
  induction rules with
  | nil => intro t tl h; have : t = tl := h; subst this; simp [ruleCalls]
  | cons r rs ih =>
    intro t tl h
    obtain ⟨t1, t2, hdocs, hsc, hrest⟩ := h
    have i1 := ih hrest
    have i2 := docsText_length (m := sRDOC) (by decide) r.docs hdocs
    have i3 : 1 + t2.length ≤ t1.length := by
      rw [headKV_eq, ruleKV_cons] at hsc
      obtain ⟨_, m1, _, rfl, h1⟩ := sc_cons_inv hsc
      have := sc_cons_length h1
      simp [spell] at this ⊢; omega
    simp only [ruleCalls]; omega

theorem calls_le_g (g : SGrammar) {t : Text} (ht : GrammarText g t) :
    calls g ≤ 3 * t.length + 3 := by
  obtain ⟨lead, t0, t1, t2, _, rfl, hgd, hrt, htd⟩ := ht
  have i1 := docsText_length (m := sGDOC) (by decide) g.gdocs hgd
  have i2 := rulesText_length g.rules hrt
  have i3 := docsText_length (m := sRDOC) (by decide) g.trailing htd
  simp only [calls, List.length_append]
  omega

end TRT

/-- **C10, scanner half, every layout.**  Any text that spells the tokens of a well-formed
    grammar with arbitrary (possibly empty) trivia between them scans to exactly those tokens. -/
theorem scan_roundtrip_text (g : SGrammar) (h : g.WF) {t : Text} (ht : GrammarText g t) :
    ∃ toks, scan t = .ok toks ∧ kvOf toks = g.kv := by
  obtain ⟨s', e, _, o⟩ := ((TRT.run_grammar_g g h ht).mono (TRT.calls_le_g g ht)) (St.init t) rfl
  refine ⟨s'.toks.reverse, ?_, ?_⟩
  · simp only [scan, e]
  · simpa [RT.out, St.init, kvOf] using o

namespace TRT

/-! ### the printer with explicit separators produces such a text -/

theorem sc_spellAllWith {sep : Nat → Text} (hs : ∀ i, IsTrivia (sep i)) :
    ∀ (kvs : List KV) (i : Nat) (tl : Text), Sc kvs (spellAllWith sep i kvs ++ tl) tl := by
  intro kvs
  induction kvs with
  | nil => intro i tl; exact .nil tl
  | cons kv r ih =>
    intro i tl
    have := Sc.cons kv (hs i) (ih (i + 1) tl)
    simpa [spellAllWith] using this

theorem docsText_docsWith {sep : Nat → Text} (hs : ∀ i, IsTrivia (sep i)) (m : Text) :
    ∀ (docs : List Text) (i : Nat) (tl : Text), DocsText m docs (docsWith sep m i docs ++ tl) tl := by
  intro docs
  induction docs with
  | nil => intro i tl; exact rfl
  | cons l ls ih =>
    intro i tl
    exact ⟨[32], sep i, docsWith sep m (i + 1) ls ++ tl, .inl rfl, hs i, by simp [docsWith], ih (i + 1) tl⟩

theorem rulesText_rulesWith {sep : Nat → Text} (hs : ∀ i, IsTrivia (sep i)) :
    ∀ (rules : List SRule) (i : Nat) (tl : Text),
    RulesText rules (rulesWith sep i rules ++ tl) tl := by
  intro rules
  induction rules with
  | nil => intro i tl; exact rfl
  | cons r rs ih =>
    intro i tl
    refine ⟨spellAllWith sep (i + r.docs.length) r.headKV ++ (rulesWith sep (i + r.items) rs ++ tl),
      rulesWith sep (i + r.items) rs ++ tl, ?_, sc_spellAllWith hs _ _ _, ih _ tl⟩
    have := docsText_docsWith hs sRDOC r.docs i
      (spellAllWith sep (i + r.docs.length) r.headKV ++ (rulesWith sep (i + r.items) rs ++ tl))
    simpa [rulesWith, SRule.prettyWith] using this

theorem grammarText_prettyWith (g : SGrammar) {lead : Text} {sep : Nat → Text}
    (hl : IsTrivia lead) (hs : ∀ i, IsTrivia (sep i)) : GrammarText g (g.prettyWith lead sep) := by
  refine ⟨lead, _, _, _, hl, rfl, docsText_docsWith hs sGDOC g.gdocs 0 _,
    rulesText_rulesWith hs g.rules g.gdocs.length _, ?_⟩
  have := docsText_docsWith hs sRDOC g.trailing (g.gdocs.length + rulesItems g.rules) []
  simpa using this

end TRT

/-- **C10, scanner half, with explicit separators**: leading trivia `lead`, and `sep i` behind
    the `i`-th item (doc line or token); every `sep i` may be empty. -/
theorem scan_roundtrip_trivia (g : SGrammar) (h : g.WF) (lead : Text) (sep : Nat → Text)
    (hl : IsTrivia lead) (hs : ∀ i, IsTrivia (sep i)) :
    ∃ toks, scan (g.prettyWith lead sep) = .ok toks ∧ kvOf toks = g.kv :=
  scan_roundtrip_text g h (TRT.grammarText_prettyWith g hl hs)

/-! ### the canonical text is one of the layouts (so `scan_roundtrip` is an instance) -/

namespace TRT
open RT

theorem sc_spellAll : ∀ (kvs : List KV) (tl : Text), Sc kvs (spellAll kvs ++ tl) tl := by
  intro kvs
  induction kvs with
  | nil => intro tl; exact .nil tl
  | cons kv r ih =>
    intro tl
    have := Sc.cons kv isTrivia_one (ih tl)
    simpa [spellAll_cons] using this

/-- further trivia behind the last token belongs to it -/
theorem sc_absorb : ∀ {kvs : List KV} {t tl ws : Text}, Sc kvs t (ws ++ tl) → IsTrivia ws →
    kvs ≠ [] → Sc kvs t tl := by
  intro kvs
  induction kvs with
  | nil => intro t tl ws _ _ h; exact absurd rfl h
  | cons kv r ih =>
    intro t tl ws h hws _
    obtain ⟨w, m, hw, rfl, hr⟩ := sc_cons_inv h
    cases r with
    | nil =>
      have := sc_nil_inv hr; subst this
      have := Sc.cons kv (isTrivia_append hw hws) (Sc.nil tl)
      simpa using this
    | cons kv' r' => exact .cons kv hw (ih hr hws (by simp))

theorem docsText_canon (m : Text) : ∀ (docs : List Text) (tl : Text),
    DocsText m docs ((docs.map (docLine m)).flatten ++ tl) tl := by
  intro docs
  induction docs with
  | nil => intro tl; exact rfl
  | cons l ls ih =>
    intro tl
    exact ⟨[32], [], (ls.map (docLine m)).flatten ++ tl, .inl rfl, .nil, by simp [docLine], ih tl⟩

theorem rulesText_canon : ∀ (rules : List SRule) (tl : Text),
    RulesText rules ((rules.map SRule.pretty).flatten ++ tl) tl := by
  intro rules
  induction rules with
  | nil => intro tl; exact rfl
  | cons r rs ih =>
    intro tl
    refine ⟨spellAll r.headKV ++ 10 :: ((rs.map SRule.pretty).flatten ++ tl),
      (rs.map SRule.pretty).flatten ++ tl, ?_, ?_, ih tl⟩
    · have := docsText_canon sRDOC r.docs
        (spellAll r.headKV ++ 10 :: ((rs.map SRule.pretty).flatten ++ tl))
      simpa [srule_pretty, headKV_eq] using this
    · exact sc_absorb (ws := [10]) (sc_spellAll r.headKV _) isTrivia_lf (by simp [SRule.headKV])

theorem grammarText_pretty (g : SGrammar) : GrammarText g g.pretty := by
  refine ⟨[], g.pretty,
    (g.rules.map SRule.pretty).flatten ++ ((g.trailing.map (docLine sRDOC)).flatten ++ []),
    (g.trailing.map (docLine sRDOC)).flatten ++ [], .nil, rfl, ?_, rulesText_canon g.rules _,
    docsText_canon sRDOC g.trailing []⟩
  have := docsText_canon sGDOC g.gdocs
    ((g.rules.map SRule.pretty).flatten ++ ((g.trailing.map (docLine sRDOC)).flatten ++ []))
  simpa [SGrammar.pretty] using this

end TRT

/-- `scan_roundtrip` (Lemmas/FrontScanRT.lean) again, as an instance of the general theorem -/
theorem scan_roundtrip' (g : SGrammar) (h : g.WF) :
    ∃ toks, scan g.pretty = .ok toks ∧ kvOf toks = g.kv :=
  scan_roundtrip_text g h (TRT.grammarText_pretty g)

/-! ### block comments, directly

`BB d r`: `r` is what follows an opening `/*` up to and including the `*/` that closes it, when
`d` further comments are open around it — the four alternatives of `RE_BLOCK_COMMENT`. -/

namespace TRT

inductive BB : Nat → Text → Prop
  /-- `*/` closing the outermost comment -/
  | close : BB 0 [42, 47]
  /-- `*/` closing an inner comment -/
  | closeS {d : Nat} {r : Text} : BB d r → BB (d + 1) (42 :: 47 :: r)
  /-- `/*` opening an inner comment -/
  | opn {d : Nat} {r : Text} : BB (d + 1) r → BB d (47 :: 42 :: r)
  /-- any other character: not a `*` before `/`, not a `/` before `*` -/
  | chr {d : Nat} {r : Text} (c : Nat) : ¬ (c = 42 ∧ r.head? = some 47) →
      ¬ (c = 47 ∧ r.head? = some 42) → BB d r → BB d (c :: r)

theorem BB.ne_nil {d : Nat} {r : Text} (h : BB d r) : r ≠ [] := by
  cases h <;> simp

theorem blockBody_BB {d : Nat} {r : Text} (h : BB d r) :
    ∀ tl, blockBody d (r ++ tl) = some r.length := by
  induction h with
  | close => intro tl; simp [blockBody]
  | closeS _ ih => intro tl; simp [blockBody, ih tl]
  | opn _ ih => intro tl; simp [blockBody, ih tl]
  | @chr d r c h1 h2 hr ih =>
    intro tl
    obtain ⟨x, r', rfl⟩ : ∃ x r', r = x :: r' := by
      cases r with
      | nil => exact absurd rfl hr.ne_nil
      | cons x r' => exact ⟨x, r', rfl⟩
    have e := blockBody.eq_5 d c ((x :: r') ++ tl)
      (fun r1 hc he => h1 ⟨hc, by simp at he; simp [he.1]⟩)
      (fun r1 hc he => h2 ⟨hc, by simp at he; simp [he.1]⟩)
    rw [List.cons_append, e, ih tl]
    simp

theorem isBlock_of_BB {body : Text} (h : BB 0 body) : IsBlock (47 :: 42 :: body) :=
  ⟨body, rfl, blockBody_BB h⟩

/-- a comment without `*` and `/` inside -/
theorem isBlock_flat (body : Text) (h : ∀ c ∈ body, c ≠ 42 ∧ c ≠ 47) :
    IsBlock (47 :: 42 :: (body ++ [42, 47])) := by
  apply isBlock_of_BB
  induction body with
  | nil => exact .close
  | cons c r ih =>
    have hc := h c (by simp)
    exact .chr c (fun h' => hc.1 h'.1) (fun h' => hc.2 h'.1)
      (ih (fun c' hc' => h c' (by simp [hc'])))

/-! ### a concrete instance: all kinds of trivia, and none, between the tokens of the sample -/

namespace Sample
open RT.Sample

/-- `/* a /* b */ * / */` -/
def nested : Text := tx "/* a /* b */ * / */"

theorem nested_block : IsBlock nested := by
  apply isBlock_of_BB (body := tx " a /* b */ * / */")
  refine .chr _ (by decide) (by decide) (.chr _ (by decide) (by decide) (.chr _ (by decide)
    (by decide) (.opn (.chr _ (by decide) (by decide) (.chr _ (by decide) (by decide)
    (.chr _ (by decide) (by decide) (.closeS (.chr _ (by decide) (by decide)
    (.chr _ (by decide) (by decide) (.chr _ (by decide) (by decide) (.chr _ (by decide)
    (by decide) (.chr _ (by decide) (by decide) .close))))))))))))

/-- the separator behind item `i`: nothing, a nested block comment between blanks, a line
    comment, CR LF + tab -/
def sep (i : Nat) : Text :=
  match i % 4 with
  | 0 => []
  | 1 => 32 :: (nested ++ [32])
  | 2 => tx "// c\r x\n"
  | _ => [13, 10, 9]

theorem sep_trivia (i : Nat) : IsTrivia (sep i) := by
  unfold sep
  split
  · exact .nil
  · exact .sp (.block nested_block (.sp .nil))
  · exact .line (tx " c\r x") (by decide) (by decide) (by decide) .nil
  · exact .crlf (.tab .nil)

example : ∃ toks, scan (grammar.prettyWith (tx "\n/**/ ") sep) = .ok toks ∧
    kvOf toks = grammar.kv :=
  scan_roundtrip_trivia grammar grammar_wf _ sep
    (.lf (.block (isBlock_flat [] (by simp)) (.sp .nil))) sep_trivia

end Sample
end TRT

end Front
end Pest
