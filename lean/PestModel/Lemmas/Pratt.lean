/-
  Lemmas/Pratt.lean — proofs about the model of `PrattParser.parse_expr` (`Pratt.lean`).

  1. `expr_post`      every successful call returns a tree with the right yield that reads
                      its tokens in their roles, is `Good`, whose exposed left powers are all
                      `≥ 2·min_prec`, and which stopped in front of an operator (if any)
                      that is weaker than `min_prec` and than every exposed right power.
  2. `expr_wf`        on a well-formed stream a call succeeds, stops in operator position,
                      and with `min_prec = 0` consumes everything.
  3. `expr_no_fuel`   fuel `> ts.length` is never exhausted.
  4. `expr_complete`  conversely to 1: every tree with these properties is what the call
                      returns on its yield — hence `Good` trees are unique.
  5. `allTrees`       the enumeration behind `reference` is sound and complete.

  All statements are about `loop`/`exprStep` under a hypothesis on the recursive call,
  followed by a three-line induction on the fuel.
-/
import PestModel.Pratt

namespace Pest
namespace Pratt
variable {α : Type}

/-! ### basic facts -/

theorem flatten_ne_nil (t : Tree α) : t.flatten ≠ [] := by
  cases t <;> simp [Tree.flatten]

theorem flatten_length_pos (t : Tree α) : 0 < t.flatten.length :=
  List.length_pos_iff.mpr (flatten_ne_nil t)

/-- left power of the token the stream stands at, read as an operator (postfix before infix) -/
def nextL (tbl : Table α) : List α → Option Nat
  | [] => none
  | tok :: _ =>
    match tbl.post tok with
    | some p => some (2 * p + 1)
    | none =>
      match tbl.inf tok with
      | some (p, _) => some (2 * p + 1)
      | none => none

/-- "the call stopped rightly": the operator the stream stands at (if any) is weaker than
    `minPrec` and than every operator exposed on the right edge of the result -/
def Stops (tbl : Table α) (minPrec : Nat) (t : Tree α) (rest : List α) : Prop :=
  ∀ L, nextL tbl rest = some L → L < 2 * minPrec ∧ ∀ x ∈ redge tbl t, L < x

/-- what a successful `parse_expr(stream, minPrec)` guarantees -/
structure Post (tbl : Table α) (minPrec : Nat) (ts : List α) (t : Tree α) (rest : List α) : Prop where
  yield : t.flatten ++ rest = ts
  lex : Lex tbl t
  good : Good tbl t
  lpow : ∀ x ∈ ledge tbl t, 2 * minPrec ≤ x
  stop : Stops tbl minPrec t rest

/-- loop invariant -/
structure LoopInv (tbl : Table α) (minPrec : Nat) (left : Tree α) (ts : List α) : Prop where
  lex : Lex tbl left
  good : Good tbl left
  lpow : ∀ x ∈ ledge tbl left, 2 * minPrec ≤ x
  rpow : ∀ L, nextL tbl ts = some L → ∀ x ∈ redge tbl left, L < x

/-! ### 1. soundness -/

theorem loop_post {tbl : Table α} {rec : List α → Nat → Res α}
    (hrec : ∀ ts mp t rest, rec ts mp = .ok t rest → Post tbl mp ts t rest) :
    ∀ (g mp : Nat) (left : Tree α) (ts : List α) (t : Tree α) (rest : List α),
      LoopInv tbl mp left ts → loop tbl rec mp g left ts = .ok t rest →
      t.flatten ++ rest = left.flatten ++ ts ∧ Lex tbl t ∧ Good tbl t ∧
      (∀ x ∈ ledge tbl t, 2 * mp ≤ x) ∧ Stops tbl mp t rest := by
  intro g
  induction g with
  | zero => intro mp left ts t rest _ h; simp [loop] at h
  | succ g ih =>
    intro mp left ts t rest inv h
    cases ts with
    | nil =>
      simp only [loop, Res.ok.injEq] at h
      obtain ⟨rfl, rfl⟩ := h
      exact ⟨rfl, inv.lex, inv.good, inv.lpow, fun L hL => by simp [nextL] at hL⟩
    | cons tok ts' =>
      simp only [loop] at h
      cases hp : tbl.post tok with
      | some prec =>
        simp only [hp] at h
        by_cases hlt : prec < mp
        · simp only [hlt, if_true, Res.ok.injEq] at h
          obtain ⟨rfl, rfl⟩ := h
          refine ⟨rfl, inv.lex, inv.good, inv.lpow, fun L hL => ?_⟩
          have hL' : L = 2 * prec + 1 := by simpa [nextL, hp] using hL.symm
          exact ⟨by omega, inv.rpow L hL⟩
        · simp only [hlt, if_false] at h
          have inv' : LoopInv tbl mp (.post left tok) ts' := by
            refine ⟨⟨by simp [hp], inv.lex⟩, ⟨inv.good, fun x hx => ?_⟩, fun x hx => ?_, fun L _ x hx => ?_⟩
            · have := inv.rpow (2 * prec + 1) (by simp [nextL, hp]) x hx
              simpa [Table.postL, hp] using this
            · simp only [ledge, List.mem_cons] at hx
              rcases hx with rfl | hx
              · simp [Table.postL, hp]; omega
              · exact inv.lpow x hx
            · simp [redge] at hx
          have := ih mp _ _ _ _ inv' h
          simpa [Tree.flatten] using this
      | none =>
        simp only [hp] at h
        cases hi : tbl.inf tok with
        | none =>
          simp only [hi, Res.ok.injEq] at h
          obtain ⟨rfl, rfl⟩ := h
          exact ⟨rfl, inv.lex, inv.good, inv.lpow, fun L hL => by simp [nextL, hp, hi] at hL⟩
        | some pa =>
          obtain ⟨prec, ra⟩ := pa
          simp only [hi] at h
          by_cases hlt : prec < mp
          · simp only [hlt, if_true, Res.ok.injEq] at h
            obtain ⟨rfl, rfl⟩ := h
            refine ⟨rfl, inv.lex, inv.good, inv.lpow, fun L hL => ?_⟩
            have hL' : L = 2 * prec + 1 := by simpa [nextL, hp, hi] using hL.symm
            exact ⟨by omega, inv.rpow L hL⟩
          · simp only [hlt, if_false] at h
            cases hr : rec ts' (prec + if ra = true then 0 else 1) with
            | eof => simp [hr] at h
            | fuel => simp [hr] at h
            | ok rhs ts'' =>
              simp only [hr] at h
              have post := hrec _ _ _ _ hr
              have hR : tbl.infR tok = 2 * (prec + if ra = true then 0 else 1) := by
                cases ra <;> simp [Table.infR, hi] <;> omega
              have inv' : LoopInv tbl mp (.bin left tok rhs) ts'' := by
                refine ⟨⟨hp, by simp [hi], inv.lex, post.lex⟩,
                  ⟨inv.good, post.good, fun x hx => ?_, fun x hx => ?_⟩, fun x hx => ?_, fun L hL x hx => ?_⟩
                · have := inv.rpow (2 * prec + 1) (by simp [nextL, hp, hi]) x hx
                  simpa [Table.infL, hi] using this
                · rw [hR]; exact post.lpow x hx
                · simp only [ledge, List.mem_cons] at hx
                  rcases hx with rfl | hx
                  · simp [Table.infL, hi]; omega
                  · exact inv.lpow x hx
                · simp only [redge, List.mem_cons] at hx
                  rcases hx with rfl | hx
                  · rw [hR]; exact (post.stop L hL).1
                  · exact (post.stop L hL).2 x hx
              have := ih mp _ _ _ _ inv' h
              have hy := post.yield
              subst hy
              simpa [Tree.flatten] using this

theorem exprStep_post {tbl : Table α} {rec : List α → Nat → Res α}
    (hrec : ∀ ts mp t rest, rec ts mp = .ok t rest → Post tbl mp ts t rest)
    (gas : Nat) (ts : List α) (mp : Nat) (t : Tree α) (rest : List α)
    (h : exprStep tbl rec gas ts mp = .ok t rest) : Post tbl mp ts t rest := by
  cases ts with
  | nil => simp [exprStep] at h
  | cons tok ts' =>
    simp only [exprStep] at h
    cases hp : tbl.pre tok with
    | none =>
      simp only [hp] at h
      have inv : LoopInv tbl mp (.leaf tok) ts' :=
        ⟨hp, trivial, fun x hx => by simp [ledge] at hx, fun L _ x hx => by simp [redge] at hx⟩
      obtain ⟨hy, hl, hg, hle, hs⟩ := loop_post hrec _ _ _ _ _ _ inv h
      exact ⟨by simpa [Tree.flatten] using hy, hl, hg, hle, hs⟩
    | some prec =>
      simp only [hp] at h
      cases hr : rec ts' prec with
      | eof => simp [hr] at h
      | fuel => simp [hr] at h
      | ok rhs ts'' =>
        simp only [hr] at h
        have post := hrec _ _ _ _ hr
        have hR : tbl.preR tok = 2 * prec := by simp [Table.preR, hp]
        have inv : LoopInv tbl mp (.pre tok rhs) ts'' := by
          refine ⟨⟨by simp [hp], post.lex⟩, ⟨post.good, fun x hx => ?_⟩,
            fun x hx => by simp [ledge] at hx, fun L hL x hx => ?_⟩
          · rw [hR]; exact post.lpow x hx
          · simp only [redge, List.mem_cons] at hx
            rcases hx with rfl | hx
            · rw [hR]; exact (post.stop L hL).1
            · exact (post.stop L hL).2 x hx
        obtain ⟨hy, hl, hg, hle, hs⟩ := loop_post hrec _ _ _ _ _ _ inv h
        have hy' := post.yield
        subst hy'
        exact ⟨by simpa [Tree.flatten] using hy, hl, hg, hle, hs⟩

theorem expr_post (tbl : Table α) :
    ∀ (f : Nat) (ts : List α) (mp : Nat) (t : Tree α) (rest : List α),
      expr tbl f ts mp = .ok t rest → Post tbl mp ts t rest := by
  intro f
  induction f with
  | zero => intro ts mp t rest h; simp [expr] at h
  | succ f ih => intro ts mp t rest h; exact exprStep_post ih f ts mp t rest h

/-! ### 2. well-formed streams are accepted, and consumed entirely at `min_prec = 0` -/

theorem loop_wf {tbl : Table α} {rec : List α → Nat → Res α} (N : Nat)
    (hrec : ∀ ts mp, wf tbl true ts = true → ts.length < N →
      ∃ t rest, rec ts mp = .ok t rest ∧ wf tbl false rest = true ∧ rest.length < ts.length) :
    ∀ (g mp : Nat) (left : Tree α) (ts : List α),
      wf tbl false ts = true → ts.length ≤ N → ts.length < g →
      ∃ t rest, loop tbl rec mp g left ts = .ok t rest ∧ wf tbl false rest = true ∧
        rest.length ≤ ts.length ∧ (mp = 0 → rest = []) := by
  intro g
  induction g with
  | zero => intro mp left ts _ _ h; omega
  | succ g ih =>
    intro mp left ts hw hN hg
    cases ts with
    | nil => exact ⟨left, [], by simp [loop], hw, Nat.le_refl _, fun _ => rfl⟩
    | cons tok ts' =>
      simp only [List.length_cons] at hN hg
      simp only [loop]
      cases hp : tbl.post tok with
      | some prec =>
        simp only [wf, hp, Option.isSome_some, if_true] at hw
        by_cases hlt : prec < mp
        · exact ⟨left, tok :: ts', by simp [hlt], by simp [wf, hp, hw], Nat.le_refl _, fun h0 => by omega⟩
        · obtain ⟨t, rest, h1, h2, h3, h4⟩ := ih mp (.post left tok) ts' hw (by omega) (by omega)
          exact ⟨t, rest, by simp [hlt, h1], h2, by simp only [List.length_cons]; omega, h4⟩
      | none =>
        cases hi : tbl.inf tok with
        | none => simp [wf, hp, hi] at hw
        | some pa =>
          obtain ⟨prec, ra⟩ := pa
          simp only [wf, hp, hi, Option.isSome_none, Option.isSome_some, if_true, if_false,
            Bool.false_eq_true] at hw
          by_cases hlt : prec < mp
          · exact ⟨left, tok :: ts', by simp [hlt], by simp [wf, hp, hi, hw], Nat.le_refl _,
              fun h0 => by omega⟩
          · obtain ⟨rhs, ts'', hr, hw'', hlen⟩ :=
              hrec ts' (prec + if ra = true then 0 else 1) hw (by omega)
            obtain ⟨t, rest, h1, h2, h3, h4⟩ :=
              ih mp (.bin left tok rhs) ts'' hw'' (by omega) (by omega)
            exact ⟨t, rest, by simp [hlt, hr, h1], h2, by simp only [List.length_cons]; omega, h4⟩

theorem exprStep_wf {tbl : Table α} {rec : List α → Nat → Res α} (N : Nat)
    (hrec : ∀ ts mp, wf tbl true ts = true → ts.length < N →
      ∃ t rest, rec ts mp = .ok t rest ∧ wf tbl false rest = true ∧ rest.length < ts.length)
    (ts : List α) (mp : Nat) (hw : wf tbl true ts = true) (hN : ts.length ≤ N) :
    ∃ t rest, exprStep tbl rec N ts mp = .ok t rest ∧ wf tbl false rest = true ∧
      rest.length < ts.length ∧ (mp = 0 → rest = []) := by
  cases ts with
  | nil => simp [wf] at hw
  | cons tok ts' =>
    simp only [List.length_cons] at hN
    simp only [exprStep]
    cases hp : tbl.pre tok with
    | none =>
      simp only [wf, hp, Option.isSome_none, if_false, Bool.false_eq_true] at hw
      obtain ⟨t, rest, h1, h2, h3, h4⟩ := loop_wf N hrec N mp (.leaf tok) ts' hw (by omega) (by omega)
      exact ⟨t, rest, h1, h2, by simp only [List.length_cons]; omega, h4⟩
    | some prec =>
      simp only [wf, hp, Option.isSome_some, if_true] at hw
      obtain ⟨rhs, ts'', hr, hw'', hlen⟩ := hrec ts' prec hw (by omega)
      obtain ⟨t, rest, h1, h2, h3, h4⟩ :=
        loop_wf N hrec N mp (.pre tok rhs) ts'' hw'' (by omega) (by omega)
      exact ⟨t, rest, by simp [hr, h1], h2, by simp only [List.length_cons]; omega, h4⟩

theorem expr_wf (tbl : Table α) :
    ∀ (f : Nat) (ts : List α) (mp : Nat), wf tbl true ts = true → ts.length < f →
      ∃ t rest, expr tbl f ts mp = .ok t rest ∧ wf tbl false rest = true ∧
        rest.length < ts.length ∧ (mp = 0 → rest = []) := by
  intro f
  induction f with
  | zero => intro ts mp _ h; omega
  | succ f ih =>
    intro ts mp hw hlen
    exact exprStep_wf f (fun ts mp hw hl => by
      obtain ⟨t, rest, h1, h2, h3, _⟩ := ih ts mp hw hl
      exact ⟨t, rest, h1, h2, h3⟩) ts mp hw (by omega)

/-- tree-side reading of well-formedness -/
theorem wf_flatten {tbl : Table α} : ∀ (t : Tree α) (rest : List α), Lex tbl t →
    wf tbl true (t.flatten ++ rest) = wf tbl false rest := by
  intro t
  induction t with
  | leaf n => intro rest h; simp only [Lex] at h; simp [Tree.flatten, wf, h]
  | pre o r ih =>
    intro rest h
    obtain ⟨h1, h2⟩ := h
    simp [Tree.flatten, wf, h1, ih rest h2]
  | post l o ih =>
    intro rest h
    obtain ⟨h1, h2⟩ := h
    simp [Tree.flatten, ih _ h2, wf, h1]
  | bin l o r ihl ihr =>
    intro rest h
    obtain ⟨h1, h2, h3, h4⟩ := h
    simp [Tree.flatten, ihl _ h3, wf, h1, h2, ihr _ h4]

/-! ### 3. the fuel is never the limit -/

theorem loop_no_fuel {tbl : Table α} {rec : List α → Nat → Res α} (N : Nat)
    (hrec : ∀ ts mp, ts.length < N → rec ts mp ≠ .fuel)
    (hlen : ∀ ts mp t rest, rec ts mp = .ok t rest → rest.length < ts.length) :
    ∀ (g mp : Nat) (left : Tree α) (ts : List α), ts.length ≤ N → ts.length < g →
      loop tbl rec mp g left ts ≠ .fuel := by
  intro g
  induction g with
  | zero => intro mp left ts _ h; omega
  | succ g ih =>
    intro mp left ts hN hg
    cases ts with
    | nil => simp [loop]
    | cons tok ts' =>
      simp only [List.length_cons] at hN hg
      simp only [loop]
      cases hp : tbl.post tok with
      | some prec =>
        by_cases hlt : prec < mp
        · simp [hlt]
        · simp only [hlt, if_false]; exact ih mp _ ts' (by omega) (by omega)
      | none =>
        cases hi : tbl.inf tok with
        | none => simp
        | some pa =>
          obtain ⟨prec, ra⟩ := pa
          by_cases hlt : prec < mp
          · simp [hlt]
          · simp only [hlt, if_false]
            cases hr : rec ts' (prec + if ra = true then 0 else 1) with
            | eof => simp
            | fuel => exact absurd hr (hrec _ _ (by omega))
            | ok rhs ts'' =>
              have := hlen _ _ _ _ hr
              exact ih mp _ ts'' (by omega) (by omega)

theorem post_shorter {tbl : Table α} {mp : Nat} {ts rest : List α} {t : Tree α}
    (h : Post tbl mp ts t rest) : rest.length < ts.length := by
  have := h.yield
  subst this
  have := flatten_length_pos t
  simp only [List.length_append]; omega

theorem exprStep_no_fuel {tbl : Table α} {rec : List α → Nat → Res α} (N : Nat)
    (hrec : ∀ ts mp, ts.length < N → rec ts mp ≠ .fuel)
    (hlen : ∀ ts mp t rest, rec ts mp = .ok t rest → rest.length < ts.length)
    (ts : List α) (mp : Nat) (hN : ts.length ≤ N) : exprStep tbl rec N ts mp ≠ .fuel := by
  cases ts with
  | nil => simp [exprStep]
  | cons tok ts' =>
    simp only [List.length_cons] at hN
    simp only [exprStep]
    cases hp : tbl.pre tok with
    | none => exact loop_no_fuel N hrec hlen N mp _ ts' (by omega) (by omega)
    | some prec =>
      cases hr : rec ts' prec with
      | eof => simp [hr]
      | fuel => exact absurd hr (hrec _ _ (by omega))
      | ok rhs ts'' =>
        have := hlen _ _ _ _ hr
        simp only [hr]
        exact loop_no_fuel N hrec hlen N mp _ ts'' (by omega) (by omega)

theorem expr_no_fuel (tbl : Table α) :
    ∀ (f : Nat) (ts : List α) (mp : Nat), ts.length < f → expr tbl f ts mp ≠ .fuel := by
  intro f
  induction f with
  | zero => intro ts mp h; omega
  | succ f ih =>
    intro ts mp hlen
    exact exprStep_no_fuel f ih
      (fun ts mp t rest h => post_shorter (expr_post tbl f ts mp t rest h)) ts mp (by omega)

/-! ### 4. completeness: a tree with the guaranteed properties is the one that is returned

  A tree is its *head* (the primary or prefix node at the bottom of its left spine) with the
  postfix/infix nodes of the left spine applied on top, innermost first — exactly the
  order in which the loop builds it. -/

inductive Frame (α : Type) where
  | post (o : α)
  | bin (o : α) (r : Tree α)

def Frame.apply : Frame α → Tree α → Tree α
  | .post o, l => .post l o
  | .bin o r, l => .bin l o r

def Frame.toks : Frame α → List α
  | .post o => [o]
  | .bin o r => o :: r.flatten

def plug (left : Tree α) : List (Frame α) → Tree α
  | [] => left
  | fr :: ctx => plug (fr.apply left) ctx

def ctxToks : List (Frame α) → List α
  | [] => []
  | fr :: ctx => fr.toks ++ ctxToks ctx

theorem plug_append (left : Tree α) (ctx : List (Frame α)) (fr : Frame α) :
    plug left (ctx ++ [fr]) = fr.apply (plug left ctx) := by
  induction ctx generalizing left with
  | nil => rfl
  | cons fr' ctx ih => simp [plug, ih]

theorem ctxToks_append (ctx : List (Frame α)) (fr : Frame α) :
    ctxToks (ctx ++ [fr]) = ctxToks ctx ++ fr.toks := by
  induction ctx with
  | nil => simp [ctxToks]
  | cons fr' ctx ih => simp [ctxToks, ih]

/-- every tree is a head with its left spine plugged on -/
theorem exists_spine (t : Tree α) :
    ∃ h ctx, t = plug h ctx ∧ t.flatten = h.flatten ++ ctxToks ctx ∧
      ((∃ n, h = .leaf n) ∨ (∃ o r, h = .pre o r)) := by
  induction t with
  | leaf n => exact ⟨.leaf n, [], rfl, by simp [ctxToks], .inl ⟨n, rfl⟩⟩
  | pre o r _ => exact ⟨.pre o r, [], rfl, by simp [ctxToks], .inr ⟨o, r, rfl⟩⟩
  | post l o ih =>
    obtain ⟨h, ctx, h1, h2, h3⟩ := ih
    refine ⟨h, ctx ++ [.post o], ?_, ?_, h3⟩
    · rw [plug_append, ← h1]; rfl
    · rw [ctxToks_append]; simp [Tree.flatten, h2, Frame.toks]
  | bin l o r ih _ =>
    obtain ⟨h, ctx, h1, h2, h3⟩ := ih
    refine ⟨h, ctx ++ [.bin o r], ?_, ?_, h3⟩
    · rw [plug_append, ← h1]; rfl
    · rw [ctxToks_append]; simp [Tree.flatten, h2, Frame.toks]

theorem lex_of_apply {tbl : Table α} (fr : Frame α) (x : Tree α) (h : Lex tbl (fr.apply x)) :
    Lex tbl x := by
  cases fr with
  | post o => exact h.2
  | bin o r => exact h.2.2.1

theorem good_of_apply {tbl : Table α} (fr : Frame α) (x : Tree α) (h : Good tbl (fr.apply x)) :
    Good tbl x := by
  cases fr with
  | post o => exact h.1
  | bin o r => exact h.1

theorem lex_of_plug {tbl : Table α} (ctx : List (Frame α)) (x : Tree α) (h : Lex tbl (plug x ctx)) :
    Lex tbl x := by
  induction ctx generalizing x with
  | nil => exact h
  | cons fr ctx ih => exact lex_of_apply fr x (ih _ h)

theorem good_of_plug {tbl : Table α} (ctx : List (Frame α)) (x : Tree α) (h : Good tbl (plug x ctx)) :
    Good tbl x := by
  induction ctx generalizing x with
  | nil => exact h
  | cons fr ctx ih => exact good_of_apply fr x (ih _ h)

theorem ledge_apply {tbl : Table α} (fr : Frame α) (x : Tree α) (y : Nat) (h : y ∈ ledge tbl x) :
    y ∈ ledge tbl (fr.apply x) := by
  cases fr <;> simp [Frame.apply, ledge, h]

theorem ledge_plug {tbl : Table α} (ctx : List (Frame α)) (x : Tree α) (y : Nat)
    (h : y ∈ ledge tbl x) : y ∈ ledge tbl (plug x ctx) := by
  induction ctx generalizing x with
  | nil => exact h
  | cons fr ctx ih => exact ih _ (ledge_apply fr x y h)

/-- the operator that follows a left operand `x` inside a `Good` tree (or after it) is weaker
    than everything exposed on the right edge of `x` -/
theorem next_weaker {tbl : Table α} (ctx : List (Frame α)) (x : Tree α) (rest : List α) (mp L : Nat)
    (hl : Lex tbl (plug x ctx)) (hg : Good tbl (plug x ctx)) (hs : Stops tbl mp (plug x ctx) rest)
    (hL : nextL tbl (ctxToks ctx ++ rest) = some L) : ∀ y ∈ redge tbl x, L < y := by
  cases ctx with
  | nil => exact (hs L (by simpa [ctxToks] using hL)).2
  | cons fr ctx' =>
    have hl' := lex_of_plug ctx' _ hl
    have hg' := good_of_plug ctx' _ hg
    cases fr with
    | post o =>
      obtain ⟨h1, _⟩ := hl'
      obtain ⟨q, hq⟩ := Option.isSome_iff_exists.mp h1
      have : L = 2 * q + 1 := by simpa [ctxToks, Frame.toks, nextL, hq] using hL.symm
      intro y hy
      have := hg'.2 y hy
      simp only [Table.postL, hq] at this
      omega
    | bin o r =>
      obtain ⟨h1, h2, _, _⟩ := hl'
      obtain ⟨⟨q, ra⟩, hq⟩ := Option.isSome_iff_exists.mp h2
      have : L = 2 * q + 1 := by simpa [ctxToks, Frame.toks, nextL, h1, hq] using hL.symm
      intro y hy
      have := hg'.2.2.1 y hy
      simp only [Table.infL, hq] at this
      omega

/-- "the recursive call returns every admissible tree on its yield" (streams shorter than `N`) -/
def Complete (tbl : Table α) (rec : List α → Nat → Res α) (N : Nat) : Prop :=
  ∀ (r : Tree α) (mp : Nat) (rest : List α), Lex tbl r → Good tbl r →
    (∀ x ∈ ledge tbl r, 2 * mp ≤ x) → Stops tbl mp r rest →
    (r.flatten ++ rest).length < N → rec (r.flatten ++ rest) mp = .ok r rest

theorem loop_complete {tbl : Table α} {rec : List α → Nat → Res α} {N : Nat}
    (hrec : Complete tbl rec N) :
    ∀ (ctx : List (Frame α)) (left : Tree α) (mp : Nat) (rest : List α) (g : Nat),
      Lex tbl (plug left ctx) → Good tbl (plug left ctx) →
      (∀ x ∈ ledge tbl (plug left ctx), 2 * mp ≤ x) → Stops tbl mp (plug left ctx) rest →
      (ctxToks ctx ++ rest).length ≤ N → (ctxToks ctx ++ rest).length < g →
      loop tbl rec mp g left (ctxToks ctx ++ rest) = .ok (plug left ctx) rest := by
  intro ctx
  induction ctx with
  | nil =>
    intro left mp rest g _ _ _ hs _ hg
    simp only [ctxToks, List.nil_append, plug] at *
    cases g with
    | zero => omega
    | succ g =>
      cases rest with
      | nil => simp [loop]
      | cons tok ts' =>
        simp only [loop]
        cases hp : tbl.post tok with
        | some q =>
          have := (hs (2 * q + 1) (by simp [nextL, hp])).1
          have hlt : q < mp := by omega
          simp [hlt]
        | none =>
          cases hi : tbl.inf tok with
          | none => simp
          | some pa =>
            obtain ⟨q, ra⟩ := pa
            have := (hs (2 * q + 1) (by simp [nextL, hp, hi])).1
            have hlt : q < mp := by omega
            simp [hlt]
  | cons fr ctx' ih =>
    intro left mp rest g hl hgd hle hs hN hg
    cases g with
    | zero => omega
    | succ g =>
      have hl' := lex_of_plug ctx' _ hl
      have hg' := good_of_plug ctx' _ hgd
      cases fr with
      | post o =>
        simp only [ctxToks, Frame.toks, List.cons_append, List.nil_append, List.length_cons] at hN hg ⊢
        obtain ⟨h1, _⟩ := hl'
        obtain ⟨q, hq⟩ := Option.isSome_iff_exists.mp h1
        have hb := hle (tbl.postL o) (ledge_plug ctx' _ _ (by simp [Frame.apply, ledge]))
        simp only [Table.postL, hq] at hb
        have hlt : ¬ q < mp := by omega
        simp only [loop, hq, hlt, if_false]
        exact ih (.post left o) mp rest g hl hgd hle hs (by omega) (by omega)
      | bin o r =>
        simp only [ctxToks, Frame.toks, List.cons_append, List.append_assoc, List.length_cons] at hN hg ⊢
        obtain ⟨h1, h2, _, hlr⟩ := hl'
        obtain ⟨⟨q, ra⟩, hq⟩ := Option.isSome_iff_exists.mp h2
        have hb := hle (tbl.infL o) (ledge_plug ctx' _ _ (by simp [Frame.apply, ledge]))
        simp only [Table.infL, hq] at hb
        have hlt : ¬ q < mp := by omega
        have hR : tbl.infR o = 2 * (q + if ra = true then 0 else 1) := by
          cases ra <;> simp [Table.infR, hq] <;> omega
        have hrec' : rec (r.flatten ++ (ctxToks ctx' ++ rest)) (q + if ra = true then 0 else 1)
            = .ok r (ctxToks ctx' ++ rest) := by
          refine hrec r _ _ hlr hg'.2.1 (fun x hx => ?_) (fun L hL => ?_) ?_
          · rw [← hR]; exact hg'.2.2.2 x hx
          · have hw := next_weaker ctx' (Frame.apply (.bin o r) left) rest mp L hl hgd hs hL
            simp only [Frame.apply, redge, List.mem_cons, forall_eq_or_imp] at hw
            exact ⟨by rw [← hR]; exact hw.1, hw.2⟩
          · simp only [List.length_append] at hN ⊢; omega
        simp only [loop, h1, hq, hlt, if_false, hrec']
        have hlen : (ctxToks ctx' ++ rest).length ≤ (r.flatten ++ (ctxToks ctx' ++ rest)).length := by
          simp only [List.length_append]; omega
        exact ih (.bin left o r) mp rest g hl hgd hle hs (by omega) (by omega)

theorem exprStep_complete {tbl : Table α} {rec : List α → Nat → Res α} {N : Nat}
    (hrec : Complete tbl rec N) : Complete tbl (exprStep tbl rec N) (N + 1) := by
  intro t mp rest hl hg hle hs hlen
  obtain ⟨h, ctx, rfl, hfl, hh⟩ := exists_spine t
  rw [hfl] at hlen ⊢
  have hlh := lex_of_plug ctx _ hl
  have hgh := good_of_plug ctx _ hg
  rcases hh with ⟨n, rfl⟩ | ⟨o, r, rfl⟩
  · have hn : tbl.pre n = none := hlh
    simp only [Tree.flatten, List.cons_append, List.nil_append, List.length_cons] at hlen ⊢
    simp only [exprStep, hn]
    exact loop_complete hrec ctx _ mp rest N hl hg hle hs (by omega) (by omega)
  · obtain ⟨h1, hlr⟩ := hlh
    obtain ⟨p, hp⟩ := Option.isSome_iff_exists.mp h1
    have hR : tbl.preR o = 2 * p := by simp [Table.preR, hp]
    simp only [Tree.flatten, List.cons_append, List.append_assoc, List.length_cons] at hlen ⊢
    have hrec' : rec (r.flatten ++ (ctxToks ctx ++ rest)) p = .ok r (ctxToks ctx ++ rest) := by
      refine hrec r _ _ hlr hgh.1 (fun x hx => ?_) (fun L hL => ?_) (by omega)
      · rw [← hR]; exact hgh.2 x hx
      · have hw := next_weaker ctx (.pre o r) rest mp L hl hg hs hL
        simp only [redge, List.mem_cons, forall_eq_or_imp] at hw
        exact ⟨by rw [← hR]; exact hw.1, hw.2⟩
    simp only [exprStep, hp, hrec']
    have hlen' : (ctxToks ctx ++ rest).length ≤ (r.flatten ++ (ctxToks ctx ++ rest)).length := by
      simp only [List.length_append]; omega
    exact loop_complete hrec ctx _ mp rest N hl hg hle hs (by omega) (by omega)

theorem expr_complete (tbl : Table α) : ∀ f : Nat, Complete tbl (expr tbl f) f := by
  intro f
  induction f with
  | zero => intro r mp rest _ _ _ _ h; omega
  | succ f ih => exact exprStep_complete ih

/-! ### 5. the enumeration behind `reference` -/

theorem splits_sound : ∀ (ts l : List α) (o : α) (r : List α),
    (l, o, r) ∈ splits ts → ts = l ++ o :: r := by
  intro ts
  induction ts with
  | nil => intro l o r h; simp [splits] at h
  | cons x xs ih =>
    intro l o r h
    simp only [splits, List.mem_cons, List.mem_map, Prod.mk.injEq, Prod.exists] at h
    rcases h with ⟨rfl, rfl, rfl⟩ | ⟨l', o', r', hm, rfl, rfl, rfl⟩
    · rfl
    · simp [ih _ _ _ hm]

theorem mem_splits : ∀ (l : List α) (o : α) (r : List α), (l, o, r) ∈ splits (l ++ o :: r) := by
  intro l
  induction l with
  | nil => intro o r; simp [splits]
  | cons x l ih =>
    intro o r
    simp only [List.cons_append, splits, List.mem_cons, List.mem_map, Prod.mk.injEq, Prod.exists]
    exact .inr ⟨l, o, r, ih o r, rfl, rfl, rfl⟩

theorem allTrees_sound : ∀ (f : Nat) (ts : List α) (t : Tree α),
    t ∈ allTrees f ts → t.flatten = ts := by
  intro f
  induction f with
  | zero => intro ts t h; simp [allTrees] at h
  | succ f ih =>
    intro ts t h
    simp only [allTrees, List.mem_append, List.mem_flatMap, Prod.exists] at h
    rcases h with h | ⟨l, o, r, hs, h⟩
    · match ts, h with
      | [n], h => simp at h; subst h; rfl
      | [], h => simp at h
      | _ :: _ :: _, h => simp at h
    · have hts := splits_sound _ _ _ _ hs
      subst hts
      rcases h with (h | h) | h
      · by_cases hl : l.isEmpty = true
        · simp only [hl, if_true, List.mem_map] at h
          obtain ⟨t', ht', rfl⟩ := h
          have := ih _ _ ht'
          simp [List.isEmpty_iff.mp hl, Tree.flatten, this]
        · simp [hl] at h
      · by_cases hr : r.isEmpty = true
        · simp only [hr, if_true, List.mem_map] at h
          obtain ⟨t', ht', rfl⟩ := h
          have := ih _ _ ht'
          simp [List.isEmpty_iff.mp hr, Tree.flatten, this]
        · simp [hr] at h
      · simp only [List.mem_map] at h
        obtain ⟨tl, htl, tr, htr, rfl⟩ := h
        simp [Tree.flatten, ih _ _ htl, ih _ _ htr]

theorem allTrees_complete : ∀ (f : Nat) (t : Tree α),
    t.flatten.length ≤ f → t ∈ allTrees f t.flatten := by
  intro f
  induction f with
  | zero => intro t h; have := flatten_length_pos t; omega
  | succ f ih =>
    intro t h
    simp only [allTrees, List.mem_append, List.mem_flatMap, Prod.exists]
    cases t with
    | leaf n => exact .inl (by simp [Tree.flatten])
    | pre o r =>
      simp only [Tree.flatten, List.length_cons] at h
      refine .inr ⟨[], o, r.flatten, mem_splits [] o _, .inl (.inl ?_)⟩
      simp only [List.isEmpty_nil, if_true, List.mem_map]
      exact ⟨r, ih r (by omega), rfl⟩
    | post l o =>
      simp only [Tree.flatten, List.length_append, List.length_cons, List.length_nil] at h
      refine .inr ⟨l.flatten, o, [], mem_splits _ o [], .inl (.inr ?_)⟩
      simp only [List.isEmpty_nil, if_true, List.mem_map]
      exact ⟨l, ih l (by omega), rfl⟩
    | bin l o r =>
      simp only [Tree.flatten, List.length_append, List.length_cons] at h
      refine .inr ⟨l.flatten, o, r.flatten, mem_splits _ o _, .inr ?_⟩
      simp only [List.mem_map]
      exact ⟨l, ih l (by omega), r, ih r (by omega), rfl⟩

end Pratt
end Pest
