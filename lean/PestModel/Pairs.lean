/-
  Pairs.lean — the token / flatten views of a parse tree (src/pest/pairs.py).

    `Tok`            `Start(rule, pos)` / `End(rule, pos)` (classes `Start`, `End`); only the rule's
                     name is kept (a `Pair` of the model stores name and modifier of its rule).
    `Pair.tokens`    `Pair.tokens()`:  `yield Start(self.rule, self.start)`; for every child
                     `yield from child.tokens()`; `yield End(self.rule, self.end)`.
    `tokensL`        `Pairs.tokens()`: `for pair in self._pairs: yield from pair.tokens()`.
    `Pair.flatten`   the local generator `_flatten(pair)` of `Pairs.flatten()`: the pair itself, then
                     `_flatten(child)` for every child (pre-order).
    `flattenL`       `Pairs.flatten()`: `for pair in self._pairs: yield from _flatten(pair)`.

  Generators are modelled by the list of what they yield.  `Pair.text` / `str(pair)` is
  `input[start:end]` by definition (a `Pair` stores only `start`/`stop`), so it has no counterpart
  here.  `dump()` / `dumps()` are not modelled in this file (the JSON side has its own model,
  `Json.lean`); nothing below depends on them.

  Model file: core only.  The theorems about these functions are in `Lemmas/TreeWF.lean`.
-/
import PestModel.Expr

namespace Pest

/-- `Start` / `End` of src/pest/pairs.py -/
inductive Tok where
  | start (name : String) (pos : Nat)
  | stop (name : String) (pos : Nat)
deriving Repr, DecidableEq, Inhabited

namespace Tok
def pos : Tok → Nat
  | start _ p => p
  | stop _ p => p
def name : Tok → String
  | start n _ => n
  | stop n _ => n
def isStart : Tok → Bool
  | start _ _ => true
  | stop _ _ => false
end Tok

mutual
/-- `Pair.tokens()` -/
def Pair.tokens : Pair → List Tok
  | .mk n _ s e ch _ => .start n s :: (tokensL ch ++ [.stop n e])
/-- `Pairs.tokens()` -/
def tokensL : List Pair → List Tok
  | [] => []
  | p :: ps => p.tokens ++ tokensL ps
end

mutual
/-- `_flatten(pair)` inside `Pairs.flatten()` -/
def Pair.flatten : Pair → List Pair
  | .mk n m s e ch t => .mk n m s e ch t :: flattenL ch
/-- `Pairs.flatten()` -/
def flattenL : List Pair → List Pair
  | [] => []
  | p :: ps => p.flatten ++ flattenL ps
end

/-! equation lemmas in the shape the proofs use -/

theorem tokensL_nil : tokensL [] = [] := by simp [tokensL]

theorem tokensL_cons (n : String) (m s e : Nat) (ch : List Pair) (t : Option String) (rest : List Pair) :
    tokensL (.mk n m s e ch t :: rest) = .start n s :: (tokensL ch ++ [.stop n e]) ++ tokensL rest := by
  simp [tokensL, Pair.tokens]

theorem flattenL_nil : flattenL [] = [] := by simp [flattenL]

theorem flattenL_cons (n : String) (m s e : Nat) (ch : List Pair) (t : Option String) (rest : List Pair) :
    flattenL (.mk n m s e ch t :: rest) = .mk n m s e ch t :: flattenL ch ++ flattenL rest := by
  simp [flattenL, Pair.flatten]

end Pest
