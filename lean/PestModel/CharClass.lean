/-
  CharClass.lean — the character-class part of `build_optimized_pattern`
  (src/pest/grammar/expressions/choice.py) over the alternatives `squash` collects, and the
  ordered choice of string literals NEWLINE is made of.  Model definitions only (no proofs):
  the driver imports this file; the theorems about it are in Props/C12.lean.
-/
import PestModel.CharSet
import PestModel.Interp

namespace Pest
namespace CharSet

/-- `char_class_parts`: a one-character `^"x"` contributes `x.upper()` and `x.lower()`, a
    one-character `"x"` contributes `x` (the model folds ASCII letters only: see the engine's
    assumptions for non-ASCII literals) -/
def classSingles : List Alt → List Nat
  | [] => []
  | .lit [x] true :: r => L1.asciiUpper x :: asciiLower x :: classSingles r
  | .lit [x] false :: r => x :: classSingles r
  | _ :: r => classSingles r

/-- `ranges`: the `ChoiceRange`s, as written -/
def classRanges : List Alt → List Iv
  | [] => []
  | .range a b :: r => (a, b) :: classRanges r
  | _ :: r => classRanges r

/-- the class part of `build_optimized_pattern(choices)` -/
def buildClass (alts : List Alt) : List Nat × List Iv :=
  mergeCharClass (classSingles alts) (classRanges alts)

/-- an ordered choice of string literals: end position of the first alternative that is a
    prefix of the input at `pos` (what `Choice(String…)` does with terminals) -/
def matchFirst (inp : Input) (alts : List Str) (pos : Nat) : Option Nat :=
  (alts.find? (startsWithAt inp · pos)).map (pos + ·.length)

/-- pest: `NEWLINE = "\n" | "\r\n" | "\r"` — LF, or CR LF taken together, or a lone CR -/
def specNewline (inp : Input) (pos : Nat) : Option Nat :=
  match inp[pos]? with
  | some 10 => some (pos + 1)
  | some 13 => if inp[pos + 1]? = some 10 then some (pos + 2) else some (pos + 1)
  | _ => none

end CharSet
end Pest
