/-
  Interp.lean — L1: mirror of the tree-walking interpreter.

  One Lean function per `parse` method of src/pest/grammar/expressions/*.py, `Rule.parse`
  (src/pest/grammar/rule.py), `ParserState.parse_trivia` (src/pest/state.py) and
  `Parser.parse` (src/pest/parser.py), statement by statement, over `PState`.

  Open recursion: `step k rec` interprets one node, calling `rec` for sub-expressions and
  rule bodies; `run (n+1) = step n (run n)`, `run 0 = oof`.  `while True` loops are
  helpers that recurse on the budget `k` (= remaining fuel), so the fuel bounds recursion
  depth and loop iterations alike; `oof` means "not enough fuel (or the real code loops
  forever / exceeds its recursion budget)".
  Partial Python operations are not totalised: they yield `exc`.
-/
import PestModel.Expr

namespace Pest

inductive R1 where
  | done (matched : Bool) (c : PState) (ps : List Pair)
  | oof
  | exc (k : PyExc)
deriving Repr, Inhabited

abbrev Sem1 := Expr → PState → R1

namespace L1

variable (g : Grammar) (inp : Input)

/-- `state.fail(label)` from a terminal (`rule_name=None`, `force=False`) -/
def failT (c : PState) : R1 :=
  match c.fail none false with
  | some c' => .done false c' []
  | none => .exc .indexError

/-- the class string `[a-b]` of `Range` -/
def inRange (a b c : CP) : Bool := a ≤ c && c ≤ b

/-! #### OptimizedChoice: the regex `build_optimized_pattern` emits, as ordered alternatives -/

def asciiUpper (c : CP) : CP := if 97 ≤ c && c ≤ 122 then c - 32 else c

/-- does the merged character class accept `c`? (singles, CI singles as upper+lower, ranges) -/
def classAccepts (alts : List Alt) (c : CP) : Bool :=
  alts.any fun
    | .lit [x] false => x == c
    | .lit [x] true => asciiUpper x == c || asciiLower x == c
    | .range a b => inRange (min a b) (max a b) c
    | _ => false

/-- end position of the first alternative (in *pattern* order) matching at `pos` -/
def optMatchOnce (alts : List Alt) (pos : Nat) : Option Nat :=
  let multiS := alts.filterMap fun | .lit s false => if s.length ≠ 1 then some s else none | _ => none
  let multiI := alts.filterMap fun | .lit s true => if s.length ≠ 1 then some s else none | _ => none
  let props := alts.filterMap fun | .uprop n => some n | _ => none
  let hasClass := alts.any fun | .lit s _ => s.length == 1 | .range _ _ => true | _ => false
  match multiS.find? (startsWithAt inp · pos) with
  | some s => some (pos + s.length)
  | none =>
    match multiI.find? (startsWithAtCI inp · pos) with
    | some s => some (pos + s.length)
    | none =>
      match inp[pos]? with
      | none => none
      | some c =>
        if props.any (g.uprop · c) then some (pos + 1)
        else if hasClass && classAccepts alts c then some (pos + 1)
        else none

/-- `(?:…)*`: iterate while an alternative matches and consumes -/
def optMatchStar (alts : List Alt) : Nat → Nat → Nat
  | 0, pos => pos
  | k + 1, pos =>
    match optMatchOnce g inp alts pos with
    | some p => if p > pos then optMatchStar alts k p else pos
    | none => pos

def optMatch (alts : List Alt) (star : Bool) (pos : Nat) : Option Nat :=
  if alts.isEmpty then some pos                      -- pattern "" matches the empty string
  else if star then some (optMatchStar g inp alts (inp.size + 1 - pos) pos)
  else optMatchOnce g inp alts pos

/-- `SkipUntil.parse`: earliest occurrence of any of `subs`, else end of input -/
def skipUntilPos (subs : List Str) (pos : Nat) : Nat :=
  let best := subs.foldl (fun (b : Option Nat) s =>
    match findFrom inp s pos with
    | some p => (match b with | none => some p | some q => if p < q then some p else some q)
    | none => b) none
  best.getD inp.size

/-! #### Rule.parse -/

def isTriviaName (n : String) : Bool := n == "COMMENT" || n == "WHITESPACE"

/-- does the rule run its body under `with state.atomic_checkpoint():`? -/
def ruleScoped (name : String) (mod : Nat) : Bool :=
  hasBit mod ATOMIC || hasBit mod COMPOUND || isTriviaName name || hasBit mod NONATOMIC

/-- entering the body: `atomic_depth += 1` for `@`, `$` and the trivia rules, `.zero()` for `!`,
    both after `atomic_depth.snapshot()`; nothing otherwise -/
def ruleEnter (name : String) (mod : Nat) (c1 : PState) : PState :=
  if hasBit mod ATOMIC || hasBit mod COMPOUND || isTriviaName name then
    { c1 with adepth := (c1.adepth.snapshot).add 1 }
  else if hasBit mod NONATOMIC then
    { c1 with adepth := (c1.adepth.snapshot).zero }
  else c1

/-- after the body: leave the `with` block, pop the rule stack, make the pair -/
def ruleExit (name : String) (mod : Nat) (start : Nat) (matched : Bool) (c2 : PState)
    (children : List Pair) : R1 :=
  let c3 := if ruleScoped name mod then { c2 with adepth := c2.adepth.restore } else c2
  match c3.rstack.pop with
  | none => .exc .indexError
  | some (_, rs) =>
    let c4 := { c3 with rstack := rs }
    if !matched then .done false c4 []
    else if hasBit mod SILENT then .done true c4 children
    else
      let (tag, c5) : Option String × PState :=
        match c4.tagStack with
        | [] => (none, c4)
        | t :: ts => (some t, { c4 with tagStack := ts })
      let children := if hasBit mod ATOMIC then visibleList children else children
      .done true c5 [.mk name mod start c5.pos children tag]

/-- `Rule.parse(state, pairs)` for a rule (name, modifier, body) -/
def ruleParse (rec : Sem1) (name : String) (mod : Nat) (body : Expr) (c : PState) : R1 :=
  match rec body (ruleEnter name mod { c with rstack := c.rstack.push name }) with
  | .done matched c2 children => ruleExit name mod c.pos matched c2 children
  | r => r

/-- `with state.tag(t): …` — push, run, then `if self.tag_stack: self.tag_stack.pop()` -/
def withTag (tag : Option String) (c : PState) (body : PState → R1) : R1 :=
  match tag with
  | none => body c
  | some t =>
    match body { c with tagStack := t :: c.tagStack } with
    | .done m c' ps => .done m { c' with tagStack := c'.tagStack.tail } ps
    | r => r

/-- `state.parser.rules[name].parse(state, pairs)` -/
def callRule (rec : Sem1) (name : String) (c : PState) : R1 :=
  match g.lookup name with
  | none => .exc .keyError
  | some r => ruleParse rec r.name r.mod r.body c

/-! #### ParserState.parse_trivia -/

/-- one guarded attempt of `parse_trivia` at a trivia rule -/
inductive TryR where
  | matched (c : PState) (ps : List Pair)     -- `state.ok(); continue`
  | no (c : PState)                           -- `state.restore()`, fall through (or no such rule)
  | stop (r : R1)                             -- out of fuel / exception

def tryTrivia (rec : Sem1) (r : Option Rule) (c : PState) : TryR :=
  match r with
  | none => .no c
  | some r =>
    match ruleParse rec r.name r.mod r.body c.checkpoint with
    | .done true c' ps => .matched c'.ok ps
    | .done false c' _ => .no c'.restore
    | r => .stop r

/-- the `while True` loop of `parse_trivia`; `acc` = pairs appended so far -/
def triviaLoop (rec : Sem1) (ws cm : Option Rule) : Nat → PState → List Pair → R1
  | 0, _, _ => .oof
  | k + 1, c, acc =>
    match tryTrivia rec ws c with
    | .matched c' ps => triviaLoop rec ws cm k c' (acc ++ ps)
    | .stop r => r
    | .no c1 =>
      match tryTrivia rec cm c1 with
      | .matched c' ps => triviaLoop rec ws cm k c' (acc ++ ps)
      | .stop r => r
      | .no c2 => .done true c2 acc                                          -- `break`

/-- `ParserState.parse_trivia(pairs)`; the Boolean it returns is never used by callers -/
def parseTrivia (rec : Sem1) (k : Nat) (c : PState) : R1 :=
  if c.adepth.val > 0 then .done false c []
  else
    match g.fusedSkip with
    | some skip => ruleParse rec skip.name skip.mod skip.body c
    | none =>
      let ws := g.lookup "WHITESPACE"
      let cm := g.lookup "COMMENT"
      if ws.isNone && cm.isNone then .done false c []
      else
        match triviaLoop rec ws cm k { c with suppress := true } [] with
        | .done m c' ps => .done m { c' with suppress := false } ps
        | r => r

/-! #### Sequence / Choice / Repeat -/

/-- `Sequence.parse`: `children` accumulates; trivia after every element but the last -/
def seqParse (rec : Sem1) (k : Nat) : List Expr → PState → List Pair → R1
  | [], c, acc => .done true c acc
  | e :: rest, c, acc =>
    match rec e c with
    | .done true c1 ps =>
      if rest.isEmpty then .done true c1 (acc ++ ps)
      else
        match parseTrivia g rec k c1 with
        | .done _ c2 tps => seqParse rec k rest c2 (acc ++ ps ++ tps)
        | r => r
    | .done false c1 _ => .done false c1 []
    | r => r

/-- `Choice.parse` -/
def choiceParse (rec : Sem1) : List Expr → PState → R1
  | [], c => .done false c []
  | e :: rest, c =>
    match rec e c.checkpoint with
    | .done true c1 ps => .done true c1.ok ps
    | .done false c1 _ => choiceParse rec rest c1.restore
    | r => r

/-- the `while True` loop of `Repeat.parse` (after the fix: checkpoint, then trivia unless
    first, then the item) -/
def repLoop (rec : Sem1) (e : Expr) : Nat → Nat → Bool → PState → List Pair → R1
  | 0, _, _, _, _ => .oof
  | k + 1, kk, first, c, acc =>
    let c0 := c.checkpoint
    let afterTrivia : R1 :=
      if first then .done true c0 [] else parseTrivia g rec kk c0
    match afterTrivia with
    | .done _ c1 tps =>
      match rec e c1 with
      | .done true c2 ps => repLoop rec e k kk false c2.ok (acc ++ tps ++ ps)
      | .done false c2 _ => .done true c2.restore acc
      | r => r
    | r => r

/-- the sequences the bounded repetitions delegate to (`_unrolled`) -/
def unrolled : Expr → Option (List Expr)
  | .rep1 e => some [e, .rep e]
  | .repExact e n => some (List.replicate n e)
  | .repMin e n => some (List.replicate n e ++ [.rep e])
  | .repMax e n => some (List.replicate n (.opt e))
  | .repMinMax e m n => some (List.replicate m e ++ List.replicate (n - m) (.opt e))
  | _ => none

/-! #### stack terminals -/

/-- match `lits` back to back from `pos`; `inl p` = all matched, end position `p`;
    `inr ()` = mismatch -/
def matchAll : List Str → Nat → Option Nat
  | [], p => some p
  | l :: ls, p => if startsWithAt inp l p then matchAll ls (p + l.length) else none

/-- `PopAll.parse`: pop one by one under a checkpoint -/
def popAllLoop : Nat → PState → Nat → R1
  | 0, _, _ => .oof
  | k + 1, c, position =>
    match c.ustack.pop with
    | none => .done true { c.ok with pos := position } []
    | some (lit, us) =>
      let c1 := { c with ustack := us }
      if startsWithAt inp lit position then popAllLoop k c1 (position + lit.length)
      else failT c1.restore

/-- `failed_rule_name` of `NegativePredicate`: the rule's name if the operand is a rule
    reference, else `None` (falls back to the current rule) -/
def failedName : Expr → Option String
  | .ident n _ => some n
  | .rule n _ _ _ => some n
  | _ => none

/-! #### one node -/

def step (k : Nat) (rec : Sem1) : Sem1
  | .str s, c =>
    if startsWithAt inp s c.pos then .done true { c with pos := c.pos + s.length } [] else failT c
  | .ci s, c =>
    if startsWithAtCI inp s c.pos then .done true { c with pos := c.pos + s.length } [] else failT c
  | .range a b, c =>
    match inp[c.pos]? with
    | some x => if inRange a b x then .done true { c with pos := c.pos + 1 } [] else failT c
    | none => failT c
  | .ident name tag, c => withTag tag c (callRule g rec name)
  | .rule name mod _ body, c => ruleParse rec name mod body c
  | .seq es, c => seqParse g rec k es c []
  | .choice es, c => choiceParse rec es c
  | .opt e, c =>
    match rec e c.checkpoint with
    | .done true c1 ps => .done true c1.ok ps
    | .done false c1 _ => .done true c1.restore []
    | r => r
  | .rep e, c => repLoop g rec e k k true c []
  | .rep1 e, c => seqParse g rec k [e, .rep e] c []
  | .repExact e n, c => seqParse g rec k (List.replicate n e) c []
  | .repMin e n, c => seqParse g rec k (List.replicate n e ++ [.rep e]) c []
  | .repMax e n, c => seqParse g rec k (List.replicate n (.opt e)) c []
  | .repMinMax e m n, c =>
    seqParse g rec k (List.replicate m e ++ List.replicate (n - m) (.opt e)) c []
  | .andP e, c =>
    match rec e c.checkpoint with
    | .done m c1 _ => .done m c1.restore []
    | r => r
  | .notP e, c =>
    let c0 := c.checkpoint
    match rec e { c0 with negDepth := c0.negDepth + 1 } with
    | .done matched c1 _ =>
      let c2 := c1.restore
      if matched then
        -- `label = str(state.parser.rules[name].expression)`: the lookup cannot fail, the
        -- rule has just been parsed
        match c2.fail (failedName e) true with
        | some c3 => .done false { c3 with negDepth := c3.negDepth - 1 } []
        | none => .exc .indexError
      else .done true { c2 with negDepth := c2.negDepth - 1 } []
    | r => r
  | .group e tag, c => withTag tag c (rec e)
  | .push e, c =>
    match rec e c with
    | .done true c1 ps =>
      .done true { c1 with ustack := c1.ustack.push (slice inp c.pos c1.pos) } ps
    | .done false c1 _ => .done false c1 []
    | r => r
  | .pushLit s, c => .done true { c with ustack := c.ustack.push s } []
  | .peekSlice a b, c =>
    -- bottom to top: Python order of `user_stack[slice]`
    match matchAll inp (pySlice c.ustack.items.reverse a b) c.pos with
    | some p => .done true { c with pos := p } []
    | none => failT c
  | .peek, c =>
    match c.ustack.peek with
    | none => .done false c []                         -- IndexError suppressed, no fail()
    | some v =>
      if startsWithAt inp v c.pos then .done true { c with pos := c.pos + v.length } [] else failT c
  | .peekAll, c =>
    match matchAll inp c.ustack.items c.pos with       -- top to bottom
    | some p => .done true { c with pos := p } []
    | none => failT c
  | .pop, c =>
    match c.ustack.peek with
    | none => .done false c []
    | some v =>
      if startsWithAt inp v c.pos then
        match c.ustack.pop with
        | some (_, us) => .done true { c with ustack := us, pos := c.pos + v.length } []
        | none => .exc .indexError
      else failT c
  | .popAll, c => popAllLoop inp (c.ustack.items.length + 1) c.checkpoint c.pos
  | .drop, c =>
    match c.ustack.pop with
    | some (_, us) => .done true { c with ustack := us } []
    | none => failT c
  | .anyB, c => if c.pos < inp.size then .done true { c with pos := c.pos + 1 } [] else .done false c []
  | .soiB, c => .done (c.pos == 0) c []
  | .eoiB, c => .done (c.pos == inp.size) c []
  | .uprop n, c =>
    match inp[c.pos]? with
    | some x => if g.uprop n x then .done true { c with pos := c.pos + 1 } [] else .done false c []
    | none => .done false c []
  | .skipUntil subs, c => .done true { c with pos := skipUntilPos inp subs c.pos } []
  | .optChoice alts star, c =>
    match optMatch g inp alts star c.pos with
    | some p => .done true { c with pos := p } []
    | none => .done false c []

def run : Nat → Sem1
  | 0 => fun _ _ => .oof
  | n + 1 => step g inp n (run n)

/-- `Parser.parse(start_rule, text, start_pos=k)`: `rule = self.rules[start_rule]`,
    fresh `ParserState`, `rule.parse` -/
def parse (fuel : Nat) (start : String) (startPos : Nat) : R1 :=
  match g.lookup start with
  | none => .exc .keyError
  | some r => ruleParse (run g inp fuel) r.name r.mod r.body (.init startPos)

end L1
end Pest
